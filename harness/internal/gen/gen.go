// Package gen holds the rapid generators shared by the property packages: JSON values,
// abstract graphs, has-expressions and typed traversals. Every random choice is drawn
// from rapid so that shrinking and replay work.
package gen

import (
	"fmt"

	"pgregory.net/rapid"
	"verif/internal/gripx"
	"verif/internal/model"
)

var (
	VertexIDs    = []string{"v0", "v1", "v2", "v3", "v4", "v5"}
	GhostIDs     = []string{"ghost1", "ghost2"}
	EdgeIDs      = []string{"e0", "e1", "e2", "e3", "e4", "e5", "e6", "e7", "e8", "e9", "e10", "e11"}
	VertexLabels = []string{"A", "B", "C"}
	EdgeLabels   = []string{"x", "y", "z"}
	SmallScalars = []interface{}{0.0, 1.0, 2.0, -1.0, 0.5, "a", "b", "1", true, false, nil}
	Lists        = []interface{}{
		[]interface{}{1.0}, []interface{}{1.0, 2.0}, []interface{}{"a", "b", "a"},
		[]interface{}{[]interface{}{1.0}, "a"}, []interface{}{map[string]interface{}{"k": 1.0}},
	}
)

// Data draws a property map over the key universe k, n, s, l, a (a is a nested map
// with keys k and b). l, when present, is always a list.
func Data(t *rapid.T, label string) map[string]interface{} {
	d := map[string]interface{}{}
	if rapid.IntRange(0, 9).Draw(t, label+".hasK") < 7 {
		d["k"] = rapid.SampledFrom(SmallScalars).Draw(t, label+".k")
	}
	if rapid.IntRange(0, 9).Draw(t, label+".hasN") < 5 {
		d["n"] = float64(rapid.IntRange(-2, 3).Draw(t, label+".n"))
	}
	if rapid.IntRange(0, 9).Draw(t, label+".hasS") < 4 {
		d["s"] = rapid.SampledFrom([]string{"a", "b", "", "1"}).Draw(t, label+".s")
	}
	switch rapid.IntRange(0, 9).Draw(t, label+".hasL") {
	case 0, 1, 2, 3:
		d["l"] = model.DeepCopy(rapid.SampledFrom(Lists).Draw(t, label+".l"))
	case 4:
		if rapid.IntRange(0, 3).Draw(t, label+".emptyL") == 0 {
			d["l"] = []interface{}{}
		}
	}
	if rapid.IntRange(0, 9).Draw(t, label+".hasA") < 4 {
		a := map[string]interface{}{}
		if rapid.Bool().Draw(t, label+".a.hasK") {
			a["k"] = rapid.SampledFrom(SmallScalars).Draw(t, label+".a.k")
		}
		if rapid.Bool().Draw(t, label+".a.hasB") {
			a["b"] = rapid.SampledFrom([]interface{}{"a", 1.0, []interface{}{1.0}}).Draw(t, label+".a.b")
		}
		d["a"] = a
	}
	return d
}

// Graph draws a small graph: up to maxV vertices over VertexIDs, up to maxE edges with
// endpoints over VertexIDs+GhostIDs (so self loops, parallel edges, dangling
// endpoints, isolated vertices and the empty graph all occur).
func Graph(t *rapid.T, maxV, maxE int) *model.Graph {
	g := &model.Graph{}
	if maxV > len(VertexIDs) {
		maxV = len(VertexIDs)
	}
	if maxE > len(EdgeIDs) {
		maxE = len(EdgeIDs)
	}
	nv := rapid.IntRange(0, maxV).Draw(t, "nV")
	ids := rapid.Permutation(VertexIDs).Draw(t, "vids")[:nv]
	for i, id := range ids {
		g.V = append(g.V, &model.Element{ID: id, Label: rapid.SampledFrom(VertexLabels).Draw(t, fmt.Sprintf("v%d.label", i)),
			Data: Data(t, fmt.Sprintf("v%d", i))})
	}
	ne := rapid.IntRange(0, maxE).Draw(t, "nE")
	ends := append(append([]string{}, VertexIDs...), GhostIDs...)
	// bias endpoints towards existing vertices
	pick := func(lbl string) string {
		if len(ids) > 0 && rapid.IntRange(0, 9).Draw(t, lbl+".existing") < 8 {
			return rapid.SampledFrom(ids).Draw(t, lbl)
		}
		return rapid.SampledFrom(ends).Draw(t, lbl)
	}
	for i := 0; i < ne; i++ {
		l := fmt.Sprintf("e%d", i)
		e := &model.Element{ID: EdgeIDs[i], Edge: true, Label: rapid.SampledFrom(EdgeLabels).Draw(t, l+".label"),
			From: pick(l + ".from"), To: pick(l + ".to")}
		if rapid.IntRange(0, 9).Draw(t, l+".hasData") < 5 {
			e.Data = Data(t, l)
		} else {
			e.Data = map[string]interface{}{}
		}
		g.E = append(g.E, e)
	}
	// vertex ids and edge ids are separate id spaces: now and then an edge carries the id
	// of a vertex (stored or not)
	if ne > 0 && rapid.IntRange(0, 3).Draw(t, "sharedGid") == 0 {
		e := g.E[rapid.IntRange(0, ne-1).Draw(t, "sharedGidEdge")]
		// half of the time the id of one of its own endpoints
		e.ID = rapid.SampledFrom([]string{e.From, e.To, rapid.SampledFrom(VertexIDs).Draw(t, "sharedGidID")}).Draw(t, "sharedGidPick")
		for _, o := range g.E {
			if o != e && o.ID == e.ID {
				e.ID = "e-shared" // (an endpoint named like another edge: keep edge ids unique)
			}
		}
	}
	return g
}

// Arrival draws the way graph g got into the store (see gripx.Arrival): about half the
// time a plain load (nil).
func Arrival(t *rapid.T, g *model.Graph) *gripx.Arrival {
	if rapid.Bool().Draw(t, "plainLoad") {
		return nil
	}
	a := &gripx.Arrival{Bulk: rapid.Bool().Draw(t, "arr.bulk"), Twice: rapid.IntRange(0, 3).Draw(t, "arr.twice") == 0}
	for i, v := range g.V {
		if rapid.IntRange(0, 2).Draw(t, fmt.Sprintf("arr.oldV%d", i)) == 0 {
			a.Old = append(a.Old, &model.Element{ID: v.ID, Label: rapid.SampledFrom(VertexLabels).Draw(t, fmt.Sprintf("arr.oldV%d.label", i)),
				Data: Data(t, fmt.Sprintf("arr.oldV%d", i))})
		}
	}
	ends := append(append([]string{}, VertexIDs...), GhostIDs...)
	for i, e := range g.E {
		if rapid.IntRange(0, 2).Draw(t, fmt.Sprintf("arr.oldE%d", i)) == 0 {
			l := fmt.Sprintf("arr.oldE%d", i)
			a.Old = append(a.Old, &model.Element{ID: e.ID, Edge: true, Label: rapid.SampledFrom(EdgeLabels).Draw(t, l+".label"),
				From: rapid.SampledFrom(ends).Draw(t, l+".from"), To: rapid.SampledFrom(ends).Draw(t, l+".to"), Data: Data(t, l)})
		}
	}
	for i := 0; i < rapid.IntRange(0, 2).Draw(t, "arr.nGoneV"); i++ {
		a.Gone = append(a.Gone, &model.Element{ID: fmt.Sprintf("gone%d", i), Label: rapid.SampledFrom(VertexLabels).Draw(t, fmt.Sprintf("arr.goneV%d.label", i)),
			Data: Data(t, fmt.Sprintf("arr.goneV%d", i))})
	}
	for i := 0; i < rapid.IntRange(0, 2).Draw(t, "arr.nGoneE"); i++ {
		l := fmt.Sprintf("arr.goneE%d", i)
		a.Gone = append(a.Gone, &model.Element{ID: fmt.Sprintf("egone%d", i), Edge: true, Label: rapid.SampledFrom(EdgeLabels).Draw(t, l+".label"),
			From: rapid.SampledFrom(ends).Draw(t, l+".from"), To: rapid.SampledFrom(ends).Draw(t, l+".to"), Data: map[string]interface{}{}})
	}
	return a
}

// WithRepeat now and then names one member of an argument list twice (hasLabel(A, B, A)):
// membership tests mean the same, an implementation that scans once per argument does not.
func WithRepeat(t *rapid.T, l []string) []string {
	if len(l) > 0 && rapid.IntRange(0, 5).Draw(t, "repeatArg") == 0 {
		return append(l, l[rapid.IntRange(0, len(l)-1).Draw(t, "repeatWhich")])
	}
	return l
}

// ---------------------------------------------------------------------------------
// has-expressions that are (mostly) defined cells over the Data universe

var dataKeys = []string{"k", "n", "s", "a.k", "a.b", "l"}

func condFor(t *rapid.T, key string) *model.Expr {
	switch key {
	case "_gid":
		if rapid.Bool().Draw(t, "gid.within") {
			return model.Leaf("within", key, strs(rapid.SliceOfNDistinct(rapid.SampledFrom(append(append([]string{""}, VertexIDs...), EdgeIDs[:4]...)), 0, 3, rapid.ID[string]).Draw(t, "gids")))
		}
		return model.Leaf(rapid.SampledFrom([]string{"eq", "neq"}).Draw(t, "op"), key, rapid.SampledFrom(append(append([]string{""}, VertexIDs[:4]...), EdgeIDs[:3]...)).Draw(t, "gid"))
	case "_label":
		if rapid.Bool().Draw(t, "label.within") {
			return model.Leaf(rapid.SampledFrom([]string{"within", "without"}).Draw(t, "op"), key, strs(rapid.SliceOfNDistinct(rapid.SampledFrom(append(append([]string{}, VertexLabels...), EdgeLabels...)), 0, 3, rapid.ID[string]).Draw(t, "labels")))
		}
		return model.Leaf(rapid.SampledFrom([]string{"eq", "neq"}).Draw(t, "op"), key, rapid.SampledFrom(append(append([]string{}, VertexLabels...), EdgeLabels...)).Draw(t, "label"))
	}
	op := rapid.SampledFrom([]string{"eq", "eq", "neq", "gt", "gte", "lt", "lte", "inside", "outside", "between", "within", "without", "contains"}).Draw(t, "op")
	switch op {
	case "inside", "outside", "between":
		lo := float64(rapid.IntRange(-2, 2).Draw(t, "lo"))
		hi := float64(rapid.IntRange(-1, 3).Draw(t, "hi"))
		return model.Leaf(op, key, []interface{}{lo, hi})
	case "within", "without":
		n := rapid.IntRange(0, 3).Draw(t, "n")
		l := make([]interface{}, n)
		for i := range l {
			l[i] = rapid.SampledFrom(SmallScalars[:10]).Draw(t, "member")
		}
		return model.Leaf(op, key, l)
	case "contains":
		return model.Leaf(op, "l", rapid.SampledFrom([]interface{}{1.0, "a", 2.0, "zz"}).Draw(t, "arg"))
	}
	return model.Leaf(op, key, rapid.SampledFrom(SmallScalars[:10]).Draw(t, "arg"))
}

func strs(a []string) []interface{} {
	o := make([]interface{}, len(a))
	for i, s := range a {
		o[i] = s
	}
	return o
}

// HasExpr draws an expression; marks lists the mark names usable as $mark.key.
func HasExpr(t *rapid.T, depth int, marks []string) *model.Expr {
	k := rapid.IntRange(0, 9).Draw(t, "node")
	if depth <= 0 || k < 6 {
		keys := append([]string{"_gid", "_label"}, dataKeys...)
		key := rapid.SampledFrom(keys).Draw(t, "key")
		e := condFor(t, key)
		if len(marks) > 0 && rapid.IntRange(0, 3).Draw(t, "onMark") == 0 {
			e.Key = "$" + rapid.SampledFrom(marks).Draw(t, "mark") + "." + e.Key
		}
		return e
	}
	switch {
	case k < 8:
		n := rapid.IntRange(1, 3).Draw(t, "nkids")
		kids := make([]*model.Expr, n)
		for i := range kids {
			kids[i] = HasExpr(t, depth-1, marks)
		}
		if rapid.Bool().Draw(t, "and") {
			return model.And(kids...)
		}
		return model.Or(kids...)
	}
	return model.Not(HasExpr(t, depth-1, marks))
}

// ---------------------------------------------------------------------------------
// typed traversal grammar

// TravOpts tunes the traversal generator.
type TravOpts struct {
	MaxLen       int
	NoOrder      bool // no limit/skip/range/distinct
	NoTerminal   bool // stop before count/render/path/select-multi
	FilterBias   bool // C02: bias towards leading filter chains and property readers
	RowCountHint int  // typical number of rows, for limit/skip bounds
}

type tstate struct {
	ty        model.Type
	marks     []string
	markTy    map[string]model.Type
	pathOK    bool
	projected bool // fields() applied
}

func labelsArg(t *rapid.T, pool []string) []string {
	switch rapid.IntRange(0, 5).Draw(t, "nlabels") {
	case 0, 1, 2:
		return nil
	case 3, 4:
		return []string{rapid.SampledFrom(pool).Draw(t, "label")}
	}
	return rapid.SliceOfNDistinct(rapid.SampledFrom(pool), 2, 2, rapid.ID[string]).Draw(t, "labels")
}

var renderTemplates = []interface{}{
	"_gid", "_label", "k", "_data", "a.k",
	map[string]interface{}{"id": "_gid", "k": "k"},
	[]interface{}{"_label", "n", "nope"},
	map[string]interface{}{"nested": map[string]interface{}{"x": "a.b"}, "list": []interface{}{"_gid"}},
}

// Start draws a V/E start.
func Start(t *rapid.T) model.Step {
	switch rapid.IntRange(0, 9).Draw(t, "start") {
	case 0, 1, 2, 3, 4:
		return model.S("V")
	case 5, 6:
		return model.S("E")
	case 7, 8:
		ids := rapid.SliceOfNDistinct(rapid.SampledFrom(append(append([]string{}, VertexIDs...), "nope", "")), 1, 3, rapid.ID[string]).Draw(t, "vids")
		return model.S("V", ids...)
	}
	ids := rapid.SliceOfNDistinct(rapid.SampledFrom(append(append([]string{}, EdgeIDs[:6]...), "nope", "")), 1, 3, rapid.ID[string]).Draw(t, "eids")
	return model.S("E", ids...)
}

// Traversal draws a well-typed traversal by construction (the generator carries the
// reference type state; no rejection sampling).
func Traversal(t *rapid.T, o TravOpts) []model.Step {
	if o.MaxLen <= 0 {
		o.MaxLen = 8
	}
	if o.RowCountHint <= 0 {
		o.RowCountHint = 6
	}
	st := &tstate{markTy: map[string]model.Type{}, pathOK: true}
	first := Start(t)
	steps := []model.Step{first}
	if first.Op == "V" {
		st.ty = model.TVertex
	} else {
		st.ty = model.TEdge
	}
	n := rapid.IntRange(0, o.MaxLen-1).Draw(t, "len")
	if o.FilterBias && first.Op == "V" && len(first.Args) == 0 || (o.FilterBias && rapid.Bool().Draw(t, "leadFilters")) {
		k := rapid.IntRange(1, 3).Draw(t, "nLead")
		for i := 0; i < k; i++ {
			steps = append(steps, leadFilter(t, st))
		}
	}
	for i := 0; i < n; i++ {
		s, terminal := nextStep(t, st, o)
		steps = append(steps, s...)
		if terminal {
			break
		}
	}
	return steps
}

func leadFilter(t *rapid.T, st *tstate) model.Step {
	lbls := VertexLabels
	ids := VertexIDs
	if st.ty == model.TEdge {
		lbls, ids = EdgeLabels, EdgeIDs[:6]
	}
	switch rapid.IntRange(0, 7).Draw(t, "leadKind") {
	case 0, 1:
		return model.S("hasLabel", WithRepeat(t, rapid.SliceOfNDistinct(rapid.SampledFrom(append(append([]string{}, lbls...), "nolabel", "")), 1, 2, rapid.ID[string]).Draw(t, "labels"))...)
	case 2:
		// "" and "nope" name no element: the filter then keeps nothing, whatever it is planned as
		return model.S("hasId", WithRepeat(t, rapid.SliceOfNDistinct(rapid.SampledFrom(append(append([]string{}, ids...), "", "nope")), 1, 3, rapid.ID[string]).Draw(t, "ids"))...)
	case 3:
		return model.Step{Op: "has", Has: condFor(t, "_label")}
	case 4:
		return model.Step{Op: "has", Has: condFor(t, "_gid")}
	case 5:
		return model.Step{Op: "has", Has: model.And(condFor(t, rapid.SampledFrom([]string{"_label", "_gid", "k"}).Draw(t, "k1")), condFor(t, rapid.SampledFrom([]string{"_label", "_gid", "n"}).Draw(t, "k2")))}
	case 6:
		return model.Step{Op: "has", Has: model.And(condFor(t, "_label"))}
	}
	return model.Step{Op: "has", Has: HasExpr(t, 1, nil)}
}

func nextStep(t *rapid.T, st *tstate, o TravOpts) ([]model.Step, bool) {
	type choice struct {
		w int
		f func() ([]model.Step, bool)
	}
	var cs []choice
	add := func(w int, f func() ([]model.Step, bool)) { cs = append(cs, choice{w, f}) }
	one := func(s model.Step) ([]model.Step, bool) { return []model.Step{s}, false }
	isV := st.ty == model.TVertex

	// moves
	add(6, func() ([]model.Step, bool) {
		if isV {
			op := rapid.SampledFrom([]string{"out", "in", "both", "outE", "inE", "bothE"}).Draw(t, "move")
			s := model.S(op, labelsArg(t, EdgeLabels)...)
			if op == "outE" || op == "inE" || op == "bothE" {
				st.ty = model.TEdge
			}
			return one(s)
		}
		op := rapid.SampledFrom([]string{"out", "in", "both"}).Draw(t, "move")
		st.ty = model.TVertex
		return one(model.S(op))
	})
	// filters
	add(3, func() ([]model.Step, bool) {
		return one(model.Step{Op: "has", Has: HasExpr(t, 2, st.marks)})
	})
	add(2, func() ([]model.Step, bool) {
		pool := VertexLabels
		if !isV {
			pool = EdgeLabels
		}
		return one(model.S("hasLabel", WithRepeat(t, rapid.SliceOfNDistinct(rapid.SampledFrom(pool), 1, 2, rapid.ID[string]).Draw(t, "labels"))...))
	})
	add(1, func() ([]model.Step, bool) {
		pool := VertexIDs
		if !isV {
			pool = EdgeIDs[:6]
		}
		return one(model.S("hasId", WithRepeat(t, rapid.SliceOfNDistinct(rapid.SampledFrom(append(append([]string{}, pool...), "")), 1, 3, rapid.ID[string]).Draw(t, "ids"))...))
	})
	add(2, func() ([]model.Step, bool) {
		return one(model.S("hasKey", rapid.SliceOfNDistinct(rapid.SampledFrom([]string{"k", "n", "s", "l", "a", "a.k", "nope"}), 1, 2, rapid.ID[string]).Draw(t, "keys")...))
	})
	// marks
	add(3, func() ([]model.Step, bool) {
		name := rapid.SampledFrom([]string{"a", "b"}).Draw(t, "mark")
		if _, ok := st.markTy[name]; !ok {
			st.marks = append(st.marks, name)
		}
		st.markTy[name] = st.ty
		return one(model.S("as", name))
	})
	if len(st.marks) > 0 {
		add(2, func() ([]model.Step, bool) {
			name := rapid.SampledFrom(st.marks).Draw(t, "sel")
			st.ty = st.markTy[name]
			return one(model.S("select", name))
		})
	}
	// projections that keep the element type
	add(1, func() ([]model.Step, bool) {
		st.pathOK = false
		st.projected = true
		switch rapid.IntRange(0, 2).Draw(t, "fieldsKind") {
		case 0:
			return one(model.S("fields"))
		case 1:
			return one(model.S("fields", rapid.SliceOfNDistinct(rapid.SampledFrom([]string{"k", "n", "s", "a"}), 1, 2, rapid.ID[string]).Draw(t, "inc")...))
		}
		return one(model.S("fields", "-"+rapid.SampledFrom([]string{"k", "n", "l"}).Draw(t, "exc")))
	})
	add(1, func() ([]model.Step, bool) {
		st.pathOK = false
		if rapid.IntRange(0, 2).Draw(t, "openUnwind") == 0 {
			// unwind of a field that may be missing, empty or no list: what the unwound
			// field holds afterwards is undocumented, but nothing else may change -
			// useful when followed by a step that leaves the element (select, moves)
			return []model.Step{model.S("unwind", rapid.SampledFrom([]string{"l", "l", "k", "s"}).Draw(t, "unwindField"))}, false
		}
		return []model.Step{model.S("hasKey", "l"), model.S("unwind", "l")}, false
	})
	if !o.NoOrder {
		add(2, func() ([]model.Step, bool) {
			h := o.RowCountHint
			switch rapid.IntRange(0, 3).Draw(t, "orderKind") {
			case 0:
				return one(model.Step{Op: "limit", N: int64(rapid.IntRange(0, h+2).Draw(t, "limit"))})
			case 1:
				return one(model.Step{Op: "skip", N: int64(rapid.IntRange(0, h+2).Draw(t, "skip"))})
			case 2:
				a := rapid.IntRange(0, h).Draw(t, "start")
				b := rapid.IntRange(-1, h+2).Draw(t, "stop")
				return one(model.Step{Op: "range", N: int64(a), M: int64(b)})
			}
			keys := [][]string{nil, {"_gid"}, {"_label"}, {"k"}, {"k", "_label"}}
			if len(st.marks) > 0 {
				keys = append(keys, []string{"$" + st.marks[0] + "._gid"})
			}
			return one(model.S("distinct", rapid.SampledFrom(keys).Draw(t, "distinctKeys")...))
		})
	}
	if !o.NoTerminal {
		add(2, func() ([]model.Step, bool) {
			return []model.Step{model.S("count")}, true
		})
		add(1, func() ([]model.Step, bool) {
			tmpl := rapid.SampledFrom(renderTemplates).Draw(t, "template")
			if len(st.marks) > 0 && rapid.Bool().Draw(t, "renderMark") {
				m := st.marks[0]
				// what the template reads of the mark decides whether the marked step is
				// loaded: one named property, the whole property map, identity fields only
				switch rapid.IntRange(0, 5).Draw(t, "markTemplate") {
				case 0, 1:
					tmpl = map[string]interface{}{"cur": tmpl, "m": "$" + m + "._gid", "mk": "$" + m + ".k"}
				case 2:
					tmpl = "$" + m + "._data"
				case 3:
					tmpl = map[string]interface{}{"d": "$" + m + "._data", "id": "$" + m + "._gid"}
				case 4:
					tmpl = map[string]interface{}{"l": "$" + m + "._label", "id": "$" + m + "._gid", "cur": "_gid"}
				default:
					tmpl = []interface{}{"$" + m + "._data.k", "$" + m + ".a.k"}
				}
			}
			return []model.Step{{Op: "render", Template: tmpl}}, true
		})
		if st.pathOK {
			add(1, func() ([]model.Step, bool) {
				return []model.Step{model.S("path")}, true
			})
		}
		if len(st.marks) >= 1 {
			add(1, func() ([]model.Step, bool) {
				names := append([]string{}, st.marks...)
				if len(names) == 1 {
					names = append(names, names[0]) // select(a,a) is still a selection row
					return []model.Step{model.S("select", names[0], names[0])}, true
				}
				return []model.Step{model.S("select", names...)}, true
			})
		}
	}
	total := 0
	for _, c := range cs {
		total += c.w
	}
	r := rapid.IntRange(0, total-1).Draw(t, "stepChoice")
	for _, c := range cs {
		if r < c.w {
			return c.f()
		}
		r -= c.w
	}
	panic("unreachable")
}

// IllTyped splices one type-violating step into a well-typed traversal and returns
// the new traversal (the reference typing decides; callers re-check with TypeCheck).
func IllTyped(t *rapid.T, base []model.Step) []model.Step {
	kind := rapid.IntRange(0, 7).Draw(t, "illKind")
	pos := rapid.IntRange(1, len(base)).Draw(t, "illPos")
	ins := func(s model.Step) []model.Step {
		out := append([]model.Step{}, base[:pos]...)
		out = append(out, s)
		return append(out, base[pos:]...)
	}
	switch kind {
	case 0:
		return ins(model.S(rapid.SampledFrom([]string{"V", "E"}).Draw(t, "midStart")))
	case 1: // first statement not V/E
		return append([]model.Step{model.S(rapid.SampledFrom([]string{"out", "count", "hasLabel"}).Draw(t, "badFirst"), "A")}, base[1:]...)
	case 2: // element step after a terminal
		term := rapid.SampledFrom([]model.Step{model.S("count"), {Op: "render", Template: "_gid"}, model.S("path")}).Draw(t, "term")
		after := rapid.SampledFrom([]model.Step{model.S("out"), model.S("hasLabel", "A"), {Op: "has", Has: model.Leaf("eq", "k", 1.0)}, model.S("fields"), model.S("distinct"), model.S("path"), {Op: "render", Template: "_gid"}, model.S("outE"), model.S("select", "a"), model.S("hasKey", "k"), model.S("hasId", "v0")}).Draw(t, "after")
		return append(append(append([]model.Step{}, base[:pos]...), term), after)
	case 3:
		return ins(model.S(rapid.SampledFrom([]string{"hasLabel", "hasId", "hasKey", "select"}).Draw(t, "emptyArgs")))
	case 4:
		return ins(model.S("as", rapid.SampledFrom([]string{"", "_x", "a.b", "$a", "__current__", "-a", "a b"}).Draw(t, "badName")))
	case 5: // edge-only position for a vertex-only step
		return append(append([]model.Step{}, base[0]), model.S("outE"), model.S(rapid.SampledFrom([]string{"outE", "inE", "bothE"}).Draw(t, "eAfterE")))
	case 6:
		return ins(model.S("nil"))
	}
	return append(append([]model.Step{}, base...), model.S("count"), model.S("aggregate"))
}
