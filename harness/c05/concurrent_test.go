package c05

// TestConcurrentEnforce: the other tests issue one call at a time. A server answers many
// clients at once through ONE policy object, so the decision for (user, graph, class)
// must not depend on which other decisions are in flight: goroutines of different users
// ask the same accounts.CasbinAccess for every triple, again and again, and each answer
// must be what the repository model's matcher (re-implemented in grants) says.

import (
	"encoding/json"
	"fmt"
	"os"
	"path/filepath"
	"strings"
	"sync"
	"testing"

	"github.com/bmeg/grip/accounts"
	"pgregory.net/rapid"
	"verif/internal/pbt"
)

type concCase struct {
	Rules   []rule `json:"rules"`
	Workers int    `json:"workers"`
	Rounds  int    `json:"rounds"`
}

func runConcurrentEnforce(t pbt.TB, c concCase) {
	pbt.Case(t)
	pbt.Current(t, c)
	mute()
	dir := scratch()
	cfgMu.Lock()
	cfgSeq++
	pol := filepath.Join(dir, fmt.Sprintf("conc%d.csv", cfgSeq))
	cfgMu.Unlock()
	var sb strings.Builder
	for _, r := range c.Rules {
		sb.WriteString("p, " + r.Sub + ", " + r.Obj + ", " + r.Act + "\n")
	}
	if err := os.WriteFile(pol, []byte(sb.String()), 0o644); err != nil {
		t.Fatalf("INFRA: %v", err)
	}
	defer os.Remove(pol)
	ce := &accounts.CasbinAccess{Model: modelPath, Policy: pol}
	users := []string{"alice", "bob", "carol", "root"}
	type triple struct{ u, g, a string }
	var triples []triple
	for _, u := range users {
		for _, g := range []string{"g1", "g2"} {
			for _, a := range classes {
				triples = append(triples, triple{u, g, a})
			}
		}
	}
	// one call before the goroutines start: the policy object creates its engine on first use
	ce.Enforce("alice", "g1", accounts.Read)
	depends := 0
	for _, tr := range triples {
		want, _ := grants(c.Rules, tr.u, tr.g, tr.a)
		if got := ce.Enforce(tr.u, tr.g, accounts.Operation(tr.a)) == nil; got != want {
			discrepancy(t, c, "enforce:sequential-answer-differs", "policy %v: Enforce(%s,%s,%s) = %v one call at a time, the model's matcher says %v", c.Rules, tr.u, tr.g, tr.a, got, want)
			return
		}
		if want && tr.u != "root" {
			depends++
		}
	}
	var mu sync.Mutex
	var first string
	var wg sync.WaitGroup
	for w := 0; w < c.Workers; w++ {
		wg.Add(1)
		go func(w int) {
			defer wg.Done()
			// every worker asks for one user's triples, rotated differently
			u := users[w%len(users)]
			for r := 0; r < c.Rounds; r++ {
				for i := range triples {
					tr := triples[(i+w*7+r)%len(triples)]
					if tr.u != u {
						continue
					}
					want, _ := grants(c.Rules, tr.u, tr.g, tr.a)
					got := ce.Enforce(tr.u, tr.g, accounts.Operation(tr.a)) == nil
					if got != want {
						mu.Lock()
						if first == "" {
							first = fmt.Sprintf("Enforce(%s,%s,%s) = %v while %d other callers were asking, %v one call at a time", tr.u, tr.g, tr.a, got, c.Workers-1, want)
						}
						mu.Unlock()
						return
					}
				}
			}
		}(w)
	}
	wg.Wait()
	if first != "" {
		discrepancy(t, c, "enforce:concurrent-answer-differs", "policy %v: %s", c.Rules, first)
		return
	}
	if depends > 0 && depends < len(triples)*3/4 {
		pbt.Nontrivial(t, fmt.Sprintf("conc|%v|%d", c.Rules, c.Workers))
	}
}

func TestConcurrentEnforce(t *testing.T) {
	if cf, ok := pbt.ReplayFile(); ok {
		if cf.Test != "TestConcurrentEnforce" {
			t.Skip()
		}
		var c concCase
		if err := json.Unmarshal(cf.Case, &c); err != nil {
			t.Fatal(err)
		}
		runConcurrentEnforce(t, c)
		return
	}
	pbt.Check(t, 12, 300, func(rt *rapid.T) {
		n := rapid.IntRange(1, 5).Draw(rt, "nrules")
		c := concCase{Workers: rapid.SampledFrom([]int{2, 4, 8}).Draw(rt, "workers"), Rounds: rapid.SampledFrom([]int{50, 200}).Draw(rt, "rounds")}
		for i := 0; i < n; i++ {
			c.Rules = append(c.Rules, rule{
				Sub: rapid.SampledFrom([]string{"alice", "bob", "bob", "carol"}).Draw(rt, "sub"),
				Obj: rapid.SampledFrom([]string{"g1", "g2", "*"}).Draw(rt, "obj"),
				Act: rapid.SampledFrom(append([]string{"*"}, classes...)).Draw(rt, "act"),
			})
		}
		if pbt.WantSample(t) {
			pbt.Sample(t, c)
		}
		runConcurrentEnforce(rt, c)
	})
}
