package c05

import (
	"context"
	"encoding/base64"
	"fmt"
	"net"
	"os"
	"path/filepath"
	"strings"
	"sync"
	"sync/atomic"

	"github.com/bmeg/grip/accounts"
	"github.com/bmeg/grip/gripql"
	grpc_middleware "github.com/grpc-ecosystem/go-grpc-middleware"
	"google.golang.org/grpc"
	"google.golang.org/grpc/credentials/insecure"
	"google.golang.org/grpc/metadata"
	"google.golang.org/grpc/test/bufconn"
	"verif/internal/pbt"
)

// clients is the typed client set of the four services. Both transports provide it: the
// generated gRPC clients over a real grpc.Server, and the generated in-process Direct
// clients that server.Serve hands to the HTTP gateway.
type clients struct {
	Q gripql.QueryClient
	J gripql.JobClient
	E gripql.EditClient
	C gripql.ConfigureClient
}

// interceptors is the pair server.Serve obtains from conf.Server.Accounts.
type interceptors struct {
	unary  grpc.UnaryServerInterceptor
	stream grpc.StreamServerInterceptor
}

// ---------------------------------------------------------------------------------
// accounts configurations (cached per authenticator kind + policy text)

// repository model: /repo/test/model.conf (verbatim)
const casbinModel = `[request_definition]
r = sub, obj, act

[policy_definition]
p = sub, obj, act

[policy_effect]
e = some(where (p.eft == allow))

[matchers]
m = r.sub == p.sub && (r.obj == p.obj || p.obj ==  "*") && (r.act == p.act || p.act == "*") || r.sub == "root"
`

const proxyField = "x-grip-user" // gRPC metadata keys are lower case on the wire

var passwords = map[string]string{"alice": "pw-alice", "bob": "pw-bob", "root": "pw-root"}

var (
	cfgMu      sync.Mutex
	cfgCache   = map[string]*interceptors{}
	cfgDir     string
	cfgSeq     int
	modelPath  string
	modelCheck sync.Once
)

func scratch() string {
	if cfgDir == "" {
		cfgDir = pbt.ScratchDir("c05-")
		modelPath = filepath.Join(cfgDir, "model.conf")
		if err := os.WriteFile(modelPath, []byte(casbinModel), 0o644); err != nil {
			panic(err)
		}
	}
	return cfgDir
}

func policyText(rules []rule) string {
	var b strings.Builder
	for _, r := range rules {
		fmt.Fprintf(&b, "p, %s, %s, %s\n", r.Sub, r.Obj, r.Act)
	}
	return b.String()
}

// interceptorsFor builds the accounts.Config the way a configuration file would and asks
// it for its interceptors, exactly as server.Serve does.
func interceptorsFor(acc string, rules []rule) *interceptors {
	cfgMu.Lock()
	defer cfgMu.Unlock()
	key := acc
	if strings.HasSuffix(acc, "+casbin") {
		key += "|" + policyText(rules)
	}
	if ic, ok := cfgCache[key]; ok {
		return ic
	}
	if len(cfgCache) > 4096 {
		// bounded cache: forget everything (enforcers already built keep working for
		// whoever still holds them; files are only read when an enforcer is created)
		cfgCache = map[string]*interceptors{}
		old, _ := filepath.Glob(filepath.Join(scratch(), "policy-*.csv"))
		for _, f := range old {
			os.Remove(f)
		}
	}
	cfg := &accounts.Config{}
	auth, access, _ := strings.Cut(acc, "+")
	switch auth {
	case "off":
	case "basic":
		ba := accounts.BasicAuth{}
		for _, u := range []string{"alice", "bob", "root"} {
			ba = append(ba, accounts.BasicCredential{User: u, Password: passwords[u]})
		}
		cfg.Auth = &accounts.AuthConfig{Basic: &ba}
	case "proxy":
		cfg.Auth = &accounts.AuthConfig{Proxy: &accounts.ProxyAuth{Field: proxyField}}
	default:
		panic("unknown accounts kind " + acc)
	}
	if access == "casbin" {
		dir := scratch()
		cfgSeq++
		p := filepath.Join(dir, fmt.Sprintf("policy-%d.csv", cfgSeq))
		if err := os.WriteFile(p, []byte(policyText(rules)), 0o644); err != nil {
			panic(err)
		}
		cfg.Access = &accounts.AccessConfig{Casbin: &accounts.CasbinAccess{Model: modelPath, Policy: p}}
	}
	ic := &interceptors{unary: cfg.UnaryInterceptor(), stream: cfg.StreamInterceptor()}
	cfgCache[key] = ic
	return ic
}

// ---------------------------------------------------------------------------------
// probe: the harness' own outermost pass-through interceptor. It switches to the
// accounts interceptors of the current case (so that one grpc.Server serves all cases)
// and records when the stream interceptor chain has returned, and with what.

type probe struct {
	ic         *interceptors
	streamDone chan error
}

var curProbe atomic.Pointer[probe]

func switchUnary(ctx context.Context, req interface{}, info *grpc.UnaryServerInfo, handler grpc.UnaryHandler) (interface{}, error) {
	return curProbe.Load().ic.unary(ctx, req, info, handler)
}

func switchStream(srv interface{}, ss grpc.ServerStream, info *grpc.StreamServerInfo, handler grpc.StreamHandler) error {
	p := curProbe.Load()
	err := p.ic.stream(srv, ss, info, handler)
	select {
	case p.streamDone <- err:
	default:
	}
	return err
}

// stand-ins for server.unaryInterceptor/streamInterceptor (request logging), which are
// unexported and pass straight through when logging is disabled (the default)
func passUnary(ctx context.Context, req interface{}, info *grpc.UnaryServerInfo, handler grpc.UnaryHandler) (interface{}, error) {
	return handler(ctx, req)
}
func passStream(srv interface{}, ss grpc.ServerStream, info *grpc.StreamServerInfo, handler grpc.StreamHandler) error {
	return handler(srv, ss)
}

// ---------------------------------------------------------------------------------
// transports

var (
	theSpy     = &spy{}
	grpcOnce   sync.Once
	grpcCl     clients
	grpcServer *grpc.Server
	grpcConn   *grpc.ClientConn
	directCl   clients
)

func startTransports() {
	grpcOnce.Do(func() {
		// real gRPC server, interceptor chain assembled as in server.Serve
		lis := bufconn.Listen(1 << 20)
		grpcServer = grpc.NewServer(
			grpc.UnaryInterceptor(grpc_middleware.ChainUnaryServer(switchUnary, passUnary)),
			grpc.StreamInterceptor(grpc_middleware.ChainStreamServer(switchStream, passStream)),
			grpc.MaxSendMsgSize(1024*1024*16),
			grpc.MaxRecvMsgSize(1024*1024*16),
		)
		gripql.RegisterQueryServer(grpcServer, theSpy)
		gripql.RegisterEditServer(grpcServer, theSpy)
		gripql.RegisterJobServer(grpcServer, theSpy)
		gripql.RegisterConfigureServer(grpcServer, theSpy)
		go grpcServer.Serve(lis)
		conn, err := grpc.DialContext(context.Background(), "bufnet",
			grpc.WithContextDialer(func(ctx context.Context, _ string) (net.Conn, error) { return lis.DialContext(ctx) }),
			grpc.WithTransportCredentials(insecure.NewCredentials()))
		if err != nil {
			panic("INFRA: dial bufconn: " + err.Error())
		}
		grpcConn = conn
		grpcCl = clients{Q: gripql.NewQueryClient(conn), J: gripql.NewJobClient(conn), E: gripql.NewEditClient(conn), C: gripql.NewConfigureClient(conn)}

		// in-process gateway path: the Direct clients with the same interceptors
		u, s := gripql.DirectUnaryInterceptor(switchUnary), gripql.DirectStreamInterceptor(switchStream)
		directCl = clients{
			Q: gripql.NewQueryDirectClient(theSpy, u, s),
			J: gripql.NewJobDirectClient(theSpy, u, s),
			E: gripql.NewEditDirectClient(theSpy, u, s),
			C: gripql.NewConfigureDirectClient(theSpy, u, s),
		}
	})
}

func stopTransports() {
	if grpcConn != nil {
		grpcConn.Close()
	}
	if grpcServer != nil {
		grpcServer.Stop()
	}
}

func clientsFor(transport string) clients {
	startTransports()
	switch transport {
	case "grpc":
		return grpcCl
	case "direct":
		return directCl
	}
	panic("unknown transport " + transport)
}

// ---------------------------------------------------------------------------------
// credentials

// invalidBasic lists the credential kinds above that must fail Basic authentication.
var invalidBasic = []string{"emptypw", "unknown-emptypw", "anonymous", "emptyuser", "otherspw", "pwprefix", "pwsuffix", "usercase", "nocolon", "notbase64"}

// rootLike: a user name that is not configured but that a policy may well name.
func rootLike(c acase) string { return "mallory" }

func otherUser(u string) string {
	for _, o := range []string{"alice", "bob", "carol", "dave"} {
		if o != u && passwords[o] != "" && passwords[o] != passwords[u] {
			return o
		}
	}
	return u
}

func basicHeader(user, pw string) string {
	return "Basic " + base64.StdEncoding.EncodeToString([]byte(user+":"+pw))
}

// callMetadata is what the caller attaches: an Authorization header (Basic) and/or the
// field a fronting proxy would set. The HTTP gateway forwards "Authorization" as the
// "authorization" metadata key, so both transports carry the same pairs.
func callMetadata(c acase) metadata.MD {
	md := metadata.MD{}
	proxy := strings.HasPrefix(c.Accounts, "proxy")
	switch c.Cred {
	case "valid":
		if proxy {
			md.Set(proxyField, c.User)
		} else {
			md.Set("authorization", basicHeader(c.User, passwords[c.User]))
		}
	case "wrongpw":
		md.Set("authorization", basicHeader(c.User, "not-the-password"))
	case "unknown":
		if proxy {
			md.Set(proxyField, "mallory")
		} else {
			md.Set("authorization", basicHeader("mallory", "pw-mallory"))
		}
	case "malformed":
		md.Set("authorization", "Bearer "+base64.StdEncoding.EncodeToString([]byte(c.User+":"+passwords[c.User])))
	// further Basic credentials that do not validate (sent as they are under every
	// accounts kind; a proxy configuration does not read them)
	case "emptypw":
		md.Set("authorization", basicHeader(c.User, ""))
	case "unknown-emptypw": // an unconfigured user the policy grants everything to, with an empty password
		md.Set("authorization", basicHeader(rootLike(c), ""))
	case "anonymous": // what the grip client sends when no user is set
		md.Set("authorization", basicHeader("", ""))
	case "emptyuser":
		md.Set("authorization", basicHeader("", passwords[c.User]))
	case "otherspw":
		md.Set("authorization", basicHeader(c.User, passwords[otherUser(c.User)]))
	case "pwprefix":
		md.Set("authorization", basicHeader(c.User, passwords[c.User][:len(passwords[c.User])-1]))
	case "pwsuffix":
		md.Set("authorization", basicHeader(c.User, passwords[c.User]+" "))
	case "usercase":
		md.Set("authorization", basicHeader(strings.ToUpper(c.User[:1])+c.User[1:], passwords[c.User]))
	case "nocolon":
		md.Set("authorization", "Basic "+base64.StdEncoding.EncodeToString([]byte(c.User)))
	case "notbase64":
		md.Set("authorization", "Basic "+c.User+":"+passwords[c.User])
	case "noheader":
	default:
		panic("unknown credential kind " + c.Cred)
	}
	return md
}
