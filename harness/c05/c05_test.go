// Package c05: every exposed RPC is mediated by authentication and per-graph authorization.
//
// Level (i): spy implementations of the four services sit behind the real interceptors
// obtained from an accounts.Config, (a) on a real grpc.Server whose interceptor chain is
// assembled as in server.Serve and (b) behind the generated in-process Direct clients that
// server.Serve hands to the HTTP gateway. The method table is enumerated from the
// generated service descriptors. Level (ii) (live_test.go) drives a live GripServer.
package c05

import (
	"context"
	"encoding/json"
	"fmt"
	"io"
	stdlog "log"
	"os"
	"sort"
	"strings"
	"sync"
	"testing"
	"time"

	"github.com/bmeg/grip/accounts"
	"github.com/bmeg/grip/gripql"
	"google.golang.org/grpc"
	"google.golang.org/grpc/codes"
	"google.golang.org/grpc/metadata"
	"google.golang.org/grpc/status"
	"pgregory.net/rapid"
	"verif/internal/pbt"
)

func TestMain(m *testing.M) {
	code := pbt.Main(m, pbt.Meta{
		Property: "C05",
		Level:    "exploration",
		Rule: "case = (method of the Query/Job/Edit/Configure service descriptors, transport {real grpc.Server with the server.Serve interceptor chain, in-process Direct gateway client}, accounts {off, Basic, Basic+Casbin, Proxy+Casbin}, credential kind {valid, wrong password, unknown user, no header, malformed header}, request graph {g1,g2,g1__schema__}, Casbin policy = 0..6 rules over users x {g1,g2,g1__schema__,*} x {query,write,read,exec,admin,query_repeat,*} on the repository model; BulkAdd: 0..8 elements addressed to a mix of graphs). " +
			"TestMethodMatrix enumerates every (method, transport) x 24 fixed scenarios (allowed by exact rule / wildcard / root / no access back end / accounts off; denied by graph, class, user, empty policy, each bad credential kind); TestRandomPolicies draws cases at random; TestLive* run the same decisions against a live GripServer (gRPC and HTTP gateway) observing stored effects. " +
			"A case is non-trivial when credentials are valid, a Casbin policy is in force, the caller is not root, the policy holds at least one rule for the caller, and either the call is denied (the policy grants the caller something but not this graph/class) or exactly one rule grants it (removing it would flip the decision); BulkAdd: the permitted elements are a non-empty proper subset of those sent. distinct = distinct (method, transport, accounts, user, graph, rule set, element graphs).",
		Assumptions: []string{
			"operation class per method is the one accounts.MethodMap assigns (the documentation names no classes); the three methods missing from MethodMap take the class of their siblings: DeleteIndex=write (all Edit methods), ListPlugins=admin (MethodMap's misspelt 'ListPlugin' entry), ListTables=read on '*' (grouped with ListGraphs in getUnaryRequestGraph)",
			"graph-less methods (ListGraphs, ListTables, Configure/*) are authorised against the graph name '*', which only wildcard rules match (as getUnaryRequestGraph states)",
			"the graph name is matched literally: g1__schema__ is a different graph from g1",
			"the policy decision is the repository model's matcher (test/model.conf), re-implemented; user 'root' is always granted",
			"Proxy authenticator: any caller presenting the configured metadata field is authenticated as that name; the field name is lower case (gRPC metadata keys are lower case on the wire)",
			"request logging is disabled (server default), so the second interceptor of the chain passes through; TLS is out of scope",
		},
	})
	stopTransports()
	stopLive()
	os.Exit(code)
}

// ---------------------------------------------------------------------------------
// stdout: accounts.BasicAuth.Validate and CasbinAccess.Enforce print every request (with
// passwords) to stdout. Keep the shard logs readable: silence os.Stdout while cases run
// (the testing package has already captured the real stdout for its own output) and
// restore it around pbt.Discrepancy, which prints the KNOWN-FINDING lines.

var (
	muteOnce   sync.Once
	realStdout *os.File
	devNull    *os.File
)

func mute() {
	muteOnce.Do(func() {
		if os.Getenv("C05_VERBOSE") != "" {
			return
		}
		realStdout = os.Stdout
		f, err := os.OpenFile(os.DevNull, os.O_WRONLY, 0)
		if err != nil {
			return
		}
		devNull = f
		os.Stdout = devNull
		stdlog.SetOutput(io.Discard) // jobstorage logs every job through the standard logger
	})
}

func discrepancy(t pbt.TB, c interface{}, sig string, format string, args ...any) bool {
	t.Helper()
	if devNull != nil {
		os.Stdout = realStdout
		defer func() { os.Stdout = devNull }()
	}
	return pbt.Discrepancy(t, c, sig, format, args...)
}

// ---------------------------------------------------------------------------------
// method table

const (
	unary   = "unary"
	sstream = "server-stream"
	cstream = "client-stream"
)

type methodSpec struct {
	Full      string // /gripql.Query/GetVertex
	Name      string // GetVertex
	Kind      string
	Class     accounts.Operation // pinned expectation
	Graphless bool               // authorised against "*"
	Ground    string             // where the class comes from
	call      func(ctx context.Context, cl clients, graph string) error
}

func drain[T any](st interface{ Recv() (T, error) }, err error) error {
	if err != nil {
		return err
	}
	for {
		_, e := st.Recv()
		if e == io.EOF {
			return nil
		}
		if e != nil {
			return e
		}
	}
}

func one[T any](_ T, err error) error { return err }

const gMM = "accounts.MethodMap"

// The table is written by hand (request constructors are typed) and checked against the
// generated service descriptors in both directions by TestTableCoversDescriptors.
var table = []*methodSpec{
	// Query
	{Full: "/gripql.Query/Traversal", Kind: sstream, Class: accounts.Query, Ground: gMM + " and streamAuthInterceptor's Traversal arm",
		call: func(ctx context.Context, cl clients, g string) error {
			return drain[*gripql.QueryResult](cl.Q.Traversal(ctx, &gripql.GraphQuery{Graph: g, Query: gripql.NewQuery().V().Statements}))
		}},
	{Full: "/gripql.Query/GetVertex", Kind: unary, Class: accounts.Read, Ground: gMM,
		call: func(ctx context.Context, cl clients, g string) error {
			return one(cl.Q.GetVertex(ctx, &gripql.ElementID{Graph: g, Id: "v"}))
		}},
	{Full: "/gripql.Query/GetEdge", Kind: unary, Class: accounts.Read, Ground: gMM,
		call: func(ctx context.Context, cl clients, g string) error {
			return one(cl.Q.GetEdge(ctx, &gripql.ElementID{Graph: g, Id: "e"}))
		}},
	{Full: "/gripql.Query/GetTimestamp", Kind: unary, Class: accounts.Read, Ground: gMM,
		call: func(ctx context.Context, cl clients, g string) error {
			return one(cl.Q.GetTimestamp(ctx, &gripql.GraphID{Graph: g}))
		}},
	{Full: "/gripql.Query/GetSchema", Kind: unary, Class: accounts.Read, Ground: gMM,
		call: func(ctx context.Context, cl clients, g string) error {
			return one(cl.Q.GetSchema(ctx, &gripql.GraphID{Graph: g}))
		}},
	{Full: "/gripql.Query/GetMapping", Kind: unary, Class: accounts.Read, Ground: gMM,
		call: func(ctx context.Context, cl clients, g string) error {
			return one(cl.Q.GetMapping(ctx, &gripql.GraphID{Graph: g}))
		}},
	{Full: "/gripql.Query/ListGraphs", Kind: unary, Class: accounts.Read, Graphless: true, Ground: gMM,
		call: func(ctx context.Context, cl clients, g string) error {
			return one(cl.Q.ListGraphs(ctx, &gripql.Empty{}))
		}},
	{Full: "/gripql.Query/ListIndices", Kind: unary, Class: accounts.Read, Ground: gMM,
		call: func(ctx context.Context, cl clients, g string) error {
			return one(cl.Q.ListIndices(ctx, &gripql.GraphID{Graph: g}))
		}},
	{Full: "/gripql.Query/ListLabels", Kind: unary, Class: accounts.Read, Ground: gMM,
		call: func(ctx context.Context, cl clients, g string) error {
			return one(cl.Q.ListLabels(ctx, &gripql.GraphID{Graph: g}))
		}},
	{Full: "/gripql.Query/ListTables", Kind: sstream, Class: accounts.Read, Graphless: true,
		Ground: "not in MethodMap; sibling of ListGraphs (getUnaryRequestGraph groups both under '*')",
		call: func(ctx context.Context, cl clients, g string) error {
			return drain[*gripql.TableInfo](cl.Q.ListTables(ctx, &gripql.Empty{}))
		}},
	// Job
	{Full: "/gripql.Job/Submit", Kind: unary, Class: accounts.Exec, Ground: gMM,
		call: func(ctx context.Context, cl clients, g string) error {
			return one(cl.J.Submit(ctx, &gripql.GraphQuery{Graph: g, Query: gripql.NewQuery().V().Statements}))
		}},
	{Full: "/gripql.Job/ListJobs", Kind: sstream, Class: accounts.Read, Ground: gMM,
		call: func(ctx context.Context, cl clients, g string) error {
			return drain[*gripql.QueryJob](cl.J.ListJobs(ctx, &gripql.GraphID{Graph: g}))
		}},
	{Full: "/gripql.Job/SearchJobs", Kind: sstream, Class: accounts.Read, Ground: gMM,
		call: func(ctx context.Context, cl clients, g string) error {
			return drain[*gripql.JobStatus](cl.J.SearchJobs(ctx, &gripql.GraphQuery{Graph: g, Query: gripql.NewQuery().V().Statements}))
		}},
	{Full: "/gripql.Job/DeleteJob", Kind: unary, Class: accounts.Write, Ground: gMM,
		call: func(ctx context.Context, cl clients, g string) error {
			return one(cl.J.DeleteJob(ctx, &gripql.QueryJob{Graph: g, Id: "j"}))
		}},
	{Full: "/gripql.Job/GetJob", Kind: unary, Class: accounts.Read, Ground: gMM,
		call: func(ctx context.Context, cl clients, g string) error {
			return one(cl.J.GetJob(ctx, &gripql.QueryJob{Graph: g, Id: "j"}))
		}},
	{Full: "/gripql.Job/ViewJob", Kind: sstream, Class: accounts.Read, Ground: gMM,
		call: func(ctx context.Context, cl clients, g string) error {
			return drain[*gripql.QueryResult](cl.J.ViewJob(ctx, &gripql.QueryJob{Graph: g, Id: "j"}))
		}},
	{Full: "/gripql.Job/ResumeJob", Kind: sstream, Class: accounts.Exec, Ground: gMM,
		call: func(ctx context.Context, cl clients, g string) error {
			return drain[*gripql.QueryResult](cl.J.ResumeJob(ctx, &gripql.ExtendQuery{Graph: g, SrcId: "j", Query: gripql.NewQuery().Out().Statements}))
		}},
	// Edit
	{Full: "/gripql.Edit/AddVertex", Kind: unary, Class: accounts.Write, Ground: gMM,
		call: func(ctx context.Context, cl clients, g string) error {
			return one(cl.E.AddVertex(ctx, &gripql.GraphElement{Graph: g, Vertex: &gripql.Vertex{Gid: "v", Label: "L"}}))
		}},
	{Full: "/gripql.Edit/AddEdge", Kind: unary, Class: accounts.Write, Ground: gMM,
		call: func(ctx context.Context, cl clients, g string) error {
			return one(cl.E.AddEdge(ctx, &gripql.GraphElement{Graph: g, Edge: &gripql.Edge{Gid: "e", Label: "L", From: "v", To: "v"}}))
		}},
	{Full: "/gripql.Edit/BulkAdd", Kind: cstream, Class: accounts.Write, Ground: gMM + " and BulkWriteFilter"},
	{Full: "/gripql.Edit/AddGraph", Kind: unary, Class: accounts.Write, Ground: gMM,
		call: func(ctx context.Context, cl clients, g string) error {
			return one(cl.E.AddGraph(ctx, &gripql.GraphID{Graph: g}))
		}},
	{Full: "/gripql.Edit/DeleteGraph", Kind: unary, Class: accounts.Write, Ground: gMM,
		call: func(ctx context.Context, cl clients, g string) error {
			return one(cl.E.DeleteGraph(ctx, &gripql.GraphID{Graph: g}))
		}},
	{Full: "/gripql.Edit/DeleteVertex", Kind: unary, Class: accounts.Write, Ground: gMM,
		call: func(ctx context.Context, cl clients, g string) error {
			return one(cl.E.DeleteVertex(ctx, &gripql.ElementID{Graph: g, Id: "v"}))
		}},
	{Full: "/gripql.Edit/DeleteEdge", Kind: unary, Class: accounts.Write, Ground: gMM,
		call: func(ctx context.Context, cl clients, g string) error {
			return one(cl.E.DeleteEdge(ctx, &gripql.ElementID{Graph: g, Id: "e"}))
		}},
	{Full: "/gripql.Edit/AddIndex", Kind: unary, Class: accounts.Write, Ground: gMM,
		call: func(ctx context.Context, cl clients, g string) error {
			return one(cl.E.AddIndex(ctx, &gripql.IndexID{Graph: g, Label: "L", Field: "f"}))
		}},
	{Full: "/gripql.Edit/DeleteIndex", Kind: unary, Class: accounts.Write,
		Ground: "not in MethodMap; every Edit method in MethodMap is write, getUnaryRequestGraph pairs it with AddIndex",
		call: func(ctx context.Context, cl clients, g string) error {
			return one(cl.E.DeleteIndex(ctx, &gripql.IndexID{Graph: g, Label: "L", Field: "f"}))
		}},
	{Full: "/gripql.Edit/AddSchema", Kind: unary, Class: accounts.Write, Ground: gMM,
		call: func(ctx context.Context, cl clients, g string) error {
			return one(cl.E.AddSchema(ctx, &gripql.Graph{Graph: g}))
		}},
	{Full: "/gripql.Edit/SampleSchema", Kind: unary, Class: accounts.Write, Ground: gMM + " (comment there: 'Maybe exec?')",
		call: func(ctx context.Context, cl clients, g string) error {
			return one(cl.E.SampleSchema(ctx, &gripql.GraphID{Graph: g}))
		}},
	{Full: "/gripql.Edit/AddMapping", Kind: unary, Class: accounts.Write, Ground: gMM,
		call: func(ctx context.Context, cl clients, g string) error {
			return one(cl.E.AddMapping(ctx, &gripql.Graph{Graph: g}))
		}},
	// Configure
	{Full: "/gripql.Configure/StartPlugin", Kind: unary, Class: accounts.Admin, Graphless: true, Ground: gMM,
		call: func(ctx context.Context, cl clients, g string) error {
			return one(cl.C.StartPlugin(ctx, &gripql.PluginConfig{Name: "p", Driver: "d"}))
		}},
	{Full: "/gripql.Configure/ListPlugins", Kind: unary, Class: accounts.Admin, Graphless: true,
		Ground: "not in MethodMap under its real name; MethodMap has the misspelt '/gripql.Configure/ListPlugin' = admin",
		call: func(ctx context.Context, cl clients, g string) error {
			return one(cl.C.ListPlugins(ctx, &gripql.Empty{}))
		}},
	{Full: "/gripql.Configure/ListDrivers", Kind: unary, Class: accounts.Admin, Graphless: true, Ground: gMM,
		call: func(ctx context.Context, cl clients, g string) error {
			return one(cl.C.ListDrivers(ctx, &gripql.Empty{}))
		}},
}

var byFull = func() map[string]*methodSpec {
	m := map[string]*methodSpec{}
	for _, s := range table {
		s.Name = s.Full[strings.LastIndex(s.Full, "/")+1:]
		m[s.Full] = s
	}
	return m
}()

var descriptors = []*grpc.ServiceDesc{&gripql.Query_ServiceDesc, &gripql.Job_ServiceDesc, &gripql.Edit_ServiceDesc, &gripql.Configure_ServiceDesc}

// descriptorMethods lists every method the generated descriptors expose: full name -> kind.
func descriptorMethods() ([]string, map[string]string) {
	kinds := map[string]string{}
	var names []string
	for _, d := range descriptors {
		for _, m := range d.Methods {
			n := "/" + d.ServiceName + "/" + m.MethodName
			kinds[n] = unary
			names = append(names, n)
		}
		for _, s := range d.Streams {
			n := "/" + d.ServiceName + "/" + s.StreamName
			switch {
			case s.ServerStreams && !s.ClientStreams:
				kinds[n] = sstream
			case s.ClientStreams && !s.ServerStreams:
				kinds[n] = cstream
			default:
				kinds[n] = "bidi"
			}
			names = append(names, n)
		}
	}
	return names, kinds
}

// ---------------------------------------------------------------------------------
// case

type rule struct {
	Sub string `json:"sub"`
	Obj string `json:"obj"`
	Act string `json:"act"`
}

func (r rule) String() string { return r.Sub + "," + r.Obj + "," + r.Act }

type acase struct {
	Method    string   `json:"method"`
	Transport string   `json:"transport"` // grpc | direct
	Accounts  string   `json:"accounts"`  // off | basic | basic+casbin | proxy+casbin
	Cred      string   `json:"cred"`      // valid | wrongpw | unknown | noheader | malformed
	User      string   `json:"user"`      // alice | bob | root (the name the credential kind is built from)
	Graph     string   `json:"graph"`
	Rules     []rule   `json:"rules"`
	Bulk      []string `json:"bulk,omitempty"` // BulkAdd: graph of each element, in order
}

var (
	transports = []string{"grpc", "direct"}
	graphs     = []string{"g1", "g2", "g1__schema__"}
	classes    = []string{"query", "write", "read", "exec", "admin", "query_repeat"}
)

// matcher of test/model.conf:
//
//	r.sub == p.sub && (r.obj == p.obj || p.obj == "*") && (r.act == p.act || p.act == "*") || r.sub == "root"
//
// returns whether the request is granted and by how many rules.
func grants(rules []rule, sub, obj, act string) (bool, int) {
	n := 0
	for _, p := range rules {
		if sub == p.Sub && (obj == p.Obj || p.Obj == "*") && (act == p.Act || p.Act == "*") {
			n++
		}
	}
	return n > 0 || sub == "root", n
}

type expectation struct {
	AuthOK  bool
	Caller  string // authenticated name
	Allowed bool
	NGrant  int
	Casbin  bool
}

var invalidTurn int

func (c acase) authenticate() (bool, string) {
	switch {
	case c.Accounts == "off":
		return true, ""
	case strings.HasPrefix(c.Accounts, "basic"):
		return c.Cred == "valid", c.User
	case strings.HasPrefix(c.Accounts, "proxy"):
		switch c.Cred {
		case "valid":
			return true, c.User
		case "unknown":
			return true, "mallory"
		}
		return false, ""
	}
	panic("accounts kind " + c.Accounts)
}

func (c acase) permitted(caller, graph string, class accounts.Operation) (bool, int) {
	if !strings.HasSuffix(c.Accounts, "+casbin") {
		return true, 0
	}
	return grants(c.Rules, caller, graph, string(class))
}

func expect(c acase, spec *methodSpec) expectation {
	e := expectation{Casbin: strings.HasSuffix(c.Accounts, "+casbin")}
	e.AuthOK, e.Caller = c.authenticate()
	if !e.AuthOK {
		return e
	}
	g := c.Graph
	if spec.Graphless {
		g = "*"
	}
	e.Allowed, e.NGrant = c.permitted(e.Caller, g, spec.Class)
	return e
}

// ---------------------------------------------------------------------------------
// execution

type observation struct {
	Entered  int      // handler entries seen by the spy for this method
	Others   []string // entries of other methods (never expected)
	Graph    string   // graph the handler saw
	Elems    []string // BulkAdd: elements the handler received
	Err      error
	Code     codes.Code
	Msg      string
	NoAnswer bool // direct BulkAdd: the interceptor chain refused the stream and nothing will ever answer CloseAndRecv
}

func (o observation) unknownMethod() bool {
	return o.Err != nil && o.Code == codes.Unknown && strings.Contains(o.Msg, "Unknown method")
}

func (o observation) String() string {
	if o.NoAnswer {
		return fmt.Sprintf("entered=%d, interceptor refused (%s %q) but the client call never gets an answer", o.Entered, o.Code, o.Msg)
	}
	if o.Err == nil {
		return fmt.Sprintf("entered=%d err=nil", o.Entered)
	}
	return fmt.Sprintf("entered=%d code=%s msg=%q", o.Entered, o.Code, o.Msg)
}

const callTimeout = 60 * time.Second

func execute(c acase, spec *methodSpec) observation {
	cl := clientsFor(c.Transport)
	p := &probe{ic: interceptorsFor(c.Accounts, c.Rules), streamDone: make(chan error, 1)}
	curProbe.Store(p)
	theSpy.reset()
	ctx, cancel := context.WithTimeout(context.Background(), callTimeout)
	defer cancel()
	ctx = metadata.NewOutgoingContext(ctx, callMetadata(c))

	var o observation
	if spec.Kind == cstream {
		o.Err, o.NoAnswer = bulkAdd(ctx, cl, c, p)
	} else {
		o.Err = spec.call(ctx, cl, c.Graph)
	}
	if o.Err != nil {
		st, _ := status.FromError(o.Err)
		o.Code, o.Msg = st.Code(), st.Message()
	}
	for _, sc := range theSpy.snapshot() {
		if sc.Method != spec.Full {
			o.Others = append(o.Others, sc.Method)
			continue
		}
		o.Entered++
		o.Graph = sc.Graph
		o.Elems = sc.Elems
	}
	return o
}

func bulkElems(c acase) []*gripql.GraphElement {
	var out []*gripql.GraphElement
	for i, g := range c.Bulk {
		out = append(out, &gripql.GraphElement{Graph: g, Vertex: &gripql.Vertex{Gid: fmt.Sprintf("b%d", i), Label: "L"}})
	}
	return out
}

func bulkAdd(ctx context.Context, cl clients, c acase, p *probe) (err error, noAnswer bool) {
	st, err := cl.E.BulkAdd(ctx)
	if err != nil {
		return err, false
	}
	for _, e := range bulkElems(c) {
		if err := st.Send(e); err != nil {
			break // io.EOF: the server already ended the stream; the status comes from CloseAndRecv
		}
	}
	if err := st.CloseSend(); err != nil {
		return err, false
	}
	if c.Transport == "direct" {
		// The Direct client runs the interceptor chain in a goroutine and answers
		// CloseAndRecv only from the handler's SendAndClose. Wait for the chain to
		// return (it always does: a refusal returns at once, otherwise the handler reads
		// to the end of the closed input) and decide structurally, without a clock,
		// whether an answer exists.
		ierr := <-p.streamDone
		entered := false
		for _, sc := range theSpy.snapshot() {
			if sc.Method == "/gripql.Edit/BulkAdd" {
				entered = true
			}
		}
		if !entered {
			if ierr == nil {
				ierr = status.Error(codes.Internal, "interceptor chain returned nil without running the handler")
			}
			return ierr, true
		}
	}
	_, err = st.CloseAndRecv()
	return err, false
}

// ---------------------------------------------------------------------------------
// diagnosis: when a decision is wrong, a few single-rule probes tell which root cause
// it is (cached per method and transport).

type diagnosis struct {
	Unmapped     bool
	RunsOnEmpty  bool
	GrantClasses []string
}

var diagCache = map[string]diagnosis{}

func diagnose(spec *methodSpec, transport string) diagnosis {
	key := spec.Full + "|" + transport
	if d, ok := diagCache[key]; ok {
		return d
	}
	base := acase{Method: spec.Full, Transport: transport, Accounts: "basic+casbin", Cred: "valid", User: "bob", Graph: "g1", Bulk: []string{"g1"}}
	var d diagnosis
	off := base
	off.Accounts, off.Cred = "off", "noheader"
	if o := execute(off, spec); o.unknownMethod() {
		d.Unmapped = true
	}
	if o := execute(base, spec); o.Entered > 0 && (spec.Kind != cstream || len(o.Elems) > 0) {
		d.RunsOnEmpty = true
	} else if o.unknownMethod() {
		d.Unmapped = true
	}
	for _, cls := range classes {
		pc := base
		obj := "g1"
		if spec.Graphless {
			obj = "*"
		}
		pc.Rules = []rule{{"bob", obj, cls}}
		if o := execute(pc, spec); o.Entered > 0 && (spec.Kind != cstream || len(o.Elems) > 0) {
			d.GrantClasses = append(d.GrantClasses, cls)
		} else if o.unknownMethod() {
			d.Unmapped = true
		}
	}
	diagCache[key] = d
	return d
}

func (d diagnosis) signature(spec *methodSpec, transport string) (string, string) {
	switch {
	case d.Unmapped:
		return "unmapped:" + spec.Name, "the interceptor has no mapping for this method and answers 'Unknown method'"
	case d.RunsOnEmpty:
		return "no-enforce:" + spec.Name + ":" + transport, "the handler runs for an authenticated caller under an empty policy: Access.Enforce is not consulted"
	case len(d.GrantClasses) == 1 && d.GrantClasses[0] != string(spec.Class):
		return "wrong-class:" + spec.Name, fmt.Sprintf("the method is authorised as class %q, expected %q", d.GrantClasses[0], spec.Class)
	case len(d.GrantClasses) == 0:
		return "over-deny:" + spec.Name + ":" + transport, "no single-class grant lets the handler run"
	}
	return "wrong-decision:" + spec.Name + ":" + transport, fmt.Sprintf("single-rule probes grant classes %v", d.GrantClasses)
}

// ---------------------------------------------------------------------------------
// judgement

func caseKey(c acase) string {
	rs := make([]string, len(c.Rules))
	for i, r := range c.Rules {
		rs[i] = r.String()
	}
	sort.Strings(rs)
	return strings.Join([]string{c.Method, c.Transport, c.Accounts, c.Cred, c.User, c.Graph, strings.Join(rs, ";"), strings.Join(c.Bulk, ",")}, "|")
}

func denialCode(c codes.Code) bool {
	return c == codes.Unauthenticated || c == codes.PermissionDenied
}

func runCase(t pbt.TB, c acase) {
	spec, ok := byFull[c.Method]
	if !ok {
		t.Fatalf("INFRA: case names unknown method %q", c.Method)
	}
	mute()
	pbt.Case(t)
	if _, random := t.(*rapid.T); !random {
		// (a file per case: affordable for the enumerations, not for the random search)
		pbt.Current(t, c)
	}
	if spec.Kind == cstream {
		runBulk(t, c, spec)
		return
	}
	exp := expect(c, spec)
	obs := execute(c, spec)
	if obs.Code == codes.Unimplemented {
		t.Fatalf("INFRA: the spy does not implement %s", c.Method)
	}
	if obs.Code == codes.DeadlineExceeded {
		pbt.Inconclusive(t, "call budget expired")
		return
	}
	verdict := "denied"
	if exp.Allowed {
		verdict = "allowed"
	}
	pbt.Class(t, spec.Name+":"+c.Transport+":"+verdict)
	pbt.Class(t, "accounts="+c.Accounts+":"+verdict)
	if exp.AuthOK && exp.Casbin && exp.Caller != "root" {
		mine := 0
		for _, r := range c.Rules {
			if r.Sub == exp.Caller {
				mine++
			}
		}
		if mine > 0 && (!exp.Allowed || exp.NGrant == 1) {
			pbt.Nontrivial(t, caseKey(c))
		}
	}
	if len(obs.Others) > 0 {
		discrepancy(t, c, "misrouted:"+spec.Name+":"+c.Transport, "%s: handlers of other methods ran: %v", c.Method, obs.Others)
		return
	}
	ran := obs.Entered > 0
	want := "the handler must run"
	if !exp.Allowed {
		want = "the handler must not run and the call must fail with Unauthenticated/PermissionDenied"
	}
	explain := func() string {
		return fmt.Sprintf("%s via %s, accounts=%s, credentials=%s(%s), graph=%q, policy=%v: authenticated=%v class=%s granted=%v => %s; observed %s",
			c.Method, c.Transport, c.Accounts, c.Cred, c.User, c.Graph, c.Rules, exp.AuthOK, spec.Class, exp.Allowed, want, obs)
	}
	switch {
	case exp.Allowed && ran:
		wantGraph := c.Graph
		if spec.Graphless {
			wantGraph = "*"
		}
		if obs.Err != nil {
			discrepancy(t, c, "error-after-handler:"+spec.Name+":"+c.Transport, "%s", explain())
			return
		}
		if obs.Entered != 1 || obs.Graph != wantGraph {
			discrepancy(t, c, "request-altered:"+spec.Name+":"+c.Transport, "%s (handler saw graph %q, %d entries)", explain(), obs.Graph, obs.Entered)
		}
	case exp.Allowed && !ran:
		sig, why := diagnose(spec, c.Transport).signature(spec, c.Transport)
		if strings.HasPrefix(sig, "no-enforce:") || strings.HasPrefix(sig, "wrong-decision:") {
			sig, why = "over-deny:"+spec.Name+":"+c.Transport, "a granted call was refused"
		}
		discrepancy(t, c, sig, "%s [%s]", explain(), why)
	case !exp.Allowed && ran:
		if !exp.AuthOK {
			discrepancy(t, c, "no-auth:"+spec.Name+":"+c.Transport, "%s [handler ran for a caller whose credentials do not validate]", explain())
			return
		}
		sig, why := diagnose(spec, c.Transport).signature(spec, c.Transport)
		if strings.HasPrefix(sig, "over-deny:") || strings.HasPrefix(sig, "unmapped:") {
			sig, why = "wrong-decision:"+spec.Name+":"+c.Transport, "handler ran although the policy does not grant the call"
		}
		discrepancy(t, c, sig, "%s [%s]", explain(), why)
	default: // denied and not run: the failure must be an authentication/permission error
		if obs.Err == nil {
			discrepancy(t, c, "silent-deny:"+spec.Name+":"+c.Transport, "%s [no handler ran, yet the call reports success]", explain())
			return
		}
		if !denialCode(obs.Code) {
			if obs.unknownMethod() {
				discrepancy(t, c, "unmapped:"+spec.Name, "%s [the refusal is 'Unknown method' (code Unknown), not a permission error]", explain())
				return
			}
			discrepancy(t, c, "wrong-code:"+spec.Name+":"+c.Transport, "%s", explain())
		}
	}
}

// BulkAdd: with valid credentials the stream is accepted and filtered element by element.
func runBulk(t pbt.TB, c acase, spec *methodSpec) {
	authOK, caller := c.authenticate()
	var wantElems []string
	if authOK {
		for i, g := range c.Bulk {
			if ok, _ := c.permitted(caller, g, accounts.Write); ok {
				wantElems = append(wantElems, fmt.Sprintf("%s/b%d", g, i))
			}
		}
	}
	obs := execute(c, spec)
	if obs.Code == codes.Unimplemented {
		t.Fatalf("INFRA: the spy does not implement %s", c.Method)
	}
	if obs.Code == codes.DeadlineExceeded {
		pbt.Inconclusive(t, "call budget expired")
		return
	}
	mix := "none-permitted"
	switch {
	case !authOK:
		mix = "unauthenticated"
	case len(c.Bulk) == 0:
		mix = "empty-stream"
	case len(wantElems) == len(c.Bulk):
		mix = "all-permitted"
	case len(wantElems) > 0:
		mix = "mixed"
	}
	pbt.Class(t, "BulkAdd:"+c.Transport+":"+mix)
	verdict := "denied"
	if authOK && (len(wantElems) > 0 || len(c.Bulk) == 0) {
		verdict = "allowed"
	}
	pbt.Class(t, spec.Name+":"+c.Transport+":"+verdict)
	pbt.Class(t, "accounts="+c.Accounts+":"+verdict)
	if mix == "mixed" && strings.HasSuffix(c.Accounts, "+casbin") && caller != "root" {
		pbt.Nontrivial(t, caseKey(c))
	}
	explain := func() string {
		return fmt.Sprintf("BulkAdd via %s, accounts=%s, credentials=%s(%s), policy=%v, element graphs=%v: authenticated=%v, elements the caller may write=%v; observed %s, handler received %v",
			c.Transport, c.Accounts, c.Cred, c.User, c.Rules, c.Bulk, authOK, wantElems, obs, obs.Elems)
	}
	if len(obs.Others) > 0 {
		discrepancy(t, c, "misrouted:BulkAdd:"+c.Transport, "handlers of other methods ran: %v", obs.Others)
		return
	}
	if !authOK {
		switch {
		case obs.Entered > 0:
			discrepancy(t, c, "no-auth:BulkAdd:"+c.Transport, "%s [handler ran for a caller whose credentials do not validate]", explain())
		case obs.NoAnswer:
			discrepancy(t, c, "hang:BulkAdd:"+c.Transport, "%s [the refused call does not fail: CloseAndRecv has nothing to return, ever]", explain())
		case obs.Err == nil:
			discrepancy(t, c, "silent-deny:BulkAdd:"+c.Transport, "%s", explain())
		case !denialCode(obs.Code):
			discrepancy(t, c, "wrong-code:BulkAdd:"+c.Transport, "%s", explain())
		}
		return
	}
	if obs.Entered == 0 {
		sig := "over-deny:BulkAdd:" + c.Transport
		if obs.unknownMethod() {
			sig = "unmapped:BulkAdd"
		}
		discrepancy(t, c, sig, "%s [an authenticated caller's stream never reached the handler]", explain())
		return
	}
	if obs.Err != nil || obs.Entered != 1 {
		discrepancy(t, c, "error-after-handler:BulkAdd:"+c.Transport, "%s", explain())
		return
	}
	// element-wise comparison
	wantSet := map[string]bool{}
	for _, e := range wantElems {
		wantSet[e] = true
	}
	gotSet := map[string]bool{}
	for _, e := range obs.Elems {
		gotSet[e] = true
		if !wantSet[e] {
			discrepancy(t, c, "bulk-filter:leak", "%s [element %s addressed to a graph the caller may not write reached the handler]", explain(), e)
			return
		}
	}
	for _, e := range wantElems {
		if !gotSet[e] {
			discrepancy(t, c, "bulk-filter:dropped", "%s [permitted element %s did not reach the handler]", explain(), e)
			return
		}
	}
	if strings.Join(obs.Elems, ",") != strings.Join(wantElems, ",") {
		discrepancy(t, c, "bulk-filter:reordered", "%s [elements duplicated or out of order]", explain())
	}
}

// ---------------------------------------------------------------------------------
// tests

func replayed(t *testing.T) bool {
	cf, ok := pbt.ReplayFile()
	if !ok {
		return false
	}
	switch cf.Test {
	case "TestMethodMatrix", "TestRandomPolicies", "TestKnownDefectsConfirmed":
		if t.Name() != "TestMethodMatrix" {
			t.Skip()
		}
		var c acase
		if err := json.Unmarshal(cf.Case, &c); err != nil {
			t.Fatal(err)
		}
		runCase(t, c)
	default:
		t.Skip()
	}
	return true
}

// The hand-written table and the generated descriptors must name exactly the same methods
// with the same streaming kinds; MethodMap classes must equal the pinned ones.
func TestTableCoversDescriptors(t *testing.T) {
	if cf, ok := pbt.ReplayFile(); ok && cf.Test != "TestTableCoversDescriptors" {
		t.Skip()
	}
	mute()
	names, kinds := descriptorMethods()
	for _, n := range names {
		spec, ok := byFull[n]
		if !ok {
			t.Fatalf("INFRA: descriptor method %s is missing from the harness table", n)
		}
		if spec.Kind != kinds[n] {
			t.Fatalf("INFRA: %s is %s in the descriptor, %s in the harness table", n, kinds[n], spec.Kind)
		}
	}
	if len(names) != len(table) {
		t.Fatalf("INFRA: harness table has %d methods, descriptors %d", len(table), len(names))
	}
	for _, spec := range table {
		pbt.Case(t)
		if op, ok := accounts.MethodMap[spec.Full]; ok && op != spec.Class {
			discrepancy(t, acase{Method: spec.Full}, "wrong-class:"+spec.Name, "accounts.MethodMap[%s]=%q, expected class %q (%s)", spec.Full, op, spec.Class, spec.Ground)
		}
	}
	pbt.Exhaustive(t)
}

type scenario struct {
	name  string
	build func(spec *methodSpec) acase
}

func other(cls accounts.Operation) []string {
	var out []string
	for _, c := range classes {
		if c != string(cls) {
			out = append(out, c)
		}
	}
	return out
}

func obj(spec *methodSpec, g string) string {
	if spec.Graphless {
		return "*"
	}
	return g
}

var mixedBulk = []string{"g1", "g2", "g1", "g1__schema__", "g2", "g1"}

var scenarios = []scenario{
	{"off/noheader", func(s *methodSpec) acase { return acase{Accounts: "off", Cred: "noheader", User: "bob", Graph: "g1"} }},
	{"off/valid", func(s *methodSpec) acase { return acase{Accounts: "off", Cred: "valid", User: "bob", Graph: "g2"} }},
	{"off/wrongpw", func(s *methodSpec) acase { return acase{Accounts: "off", Cred: "wrongpw", User: "bob", Graph: "g1"} }},
	{"exact", func(s *methodSpec) acase {
		return acase{Accounts: "basic+casbin", Cred: "valid", User: "bob", Graph: "g1", Rules: []rule{{"bob", obj(s, "g1"), string(s.Class)}}}
	}},
	{"exact-among-others", func(s *methodSpec) acase {
		return acase{Accounts: "basic+casbin", Cred: "valid", User: "alice", Graph: "g2", Rules: []rule{{"bob", "*", "*"}, {"alice", "g1", "*"}, {"alice", obj(s, "g2"), string(s.Class)}}}
	}},
	{"wild-graph", func(s *methodSpec) acase {
		return acase{Accounts: "basic+casbin", Cred: "valid", User: "bob", Graph: "g1", Rules: []rule{{"bob", "*", string(s.Class)}}}
	}},
	{"wild-class", func(s *methodSpec) acase {
		return acase{Accounts: "basic+casbin", Cred: "valid", User: "bob", Graph: "g1", Rules: []rule{{"bob", obj(s, "g1"), "*"}}}
	}},
	{"wild-all", func(s *methodSpec) acase {
		return acase{Accounts: "basic+casbin", Cred: "valid", User: "alice", Graph: "g1__schema__", Rules: []rule{{"alice", "*", "*"}}}
	}},
	{"root-empty-policy", func(s *methodSpec) acase {
		return acase{Accounts: "basic+casbin", Cred: "valid", User: "root", Graph: "g1"}
	}},
	{"schema-graph-exact", func(s *methodSpec) acase {
		return acase{Accounts: "basic+casbin", Cred: "valid", User: "bob", Graph: "g1__schema__", Rules: []rule{{"bob", obj(s, "g1__schema__"), string(s.Class)}}}
	}},
	{"deny-other-graph", func(s *methodSpec) acase {
		// graph-less methods need "*": a rule naming a concrete graph does not grant them
		return acase{Accounts: "basic+casbin", Cred: "valid", User: "bob", Graph: "g1", Rules: []rule{{"bob", "g2", string(s.Class)}, {"bob", "g2", "*"}}}
	}},
	{"deny-schema-graph-by-base-rule", func(s *methodSpec) acase {
		return acase{Accounts: "basic+casbin", Cred: "valid", User: "bob", Graph: "g1__schema__", Rules: []rule{{"bob", "g1", "*"}}}
	}},
	{"deny-other-classes", func(s *methodSpec) acase {
		c := acase{Accounts: "basic+casbin", Cred: "valid", User: "bob", Graph: "g1"}
		for _, cls := range other(s.Class) {
			c.Rules = append(c.Rules, rule{"bob", "*", cls})
		}
		return c
	}},
	{"deny-other-user", func(s *methodSpec) acase {
		return acase{Accounts: "basic+casbin", Cred: "valid", User: "bob", Graph: "g1", Rules: []rule{{"alice", "*", "*"}, {"bob", "g2", "query_repeat"}}}
	}},
	{"deny-empty-policy", func(s *methodSpec) acase {
		return acase{Accounts: "basic+casbin", Cred: "valid", User: "bob", Graph: "g1"}
	}},
	{"wrongpw", func(s *methodSpec) acase {
		return acase{Accounts: "basic+casbin", Cred: "wrongpw", User: "bob", Graph: "g1", Rules: []rule{{"bob", "*", "*"}}}
	}},
	{"noheader", func(s *methodSpec) acase {
		return acase{Accounts: "basic+casbin", Cred: "noheader", User: "bob", Graph: "g1", Rules: []rule{{"bob", "*", "*"}, {"", "*", "*"}}}
	}},
	{"unknown-user", func(s *methodSpec) acase {
		return acase{Accounts: "basic+casbin", Cred: "unknown", User: "bob", Graph: "g1", Rules: []rule{{"mallory", "*", "*"}}}
	}},
	{"malformed", func(s *methodSpec) acase {
		return acase{Accounts: "basic+casbin", Cred: "malformed", User: "bob", Graph: "g1", Rules: []rule{{"bob", "*", "*"}}}
	}},
	{"invalid-basic", func(s *methodSpec) acase {
		// every further credential that must not validate, one per method in turn; the
		// policy grants everything to everybody the header could name
		k := invalidBasic[invalidTurn%len(invalidBasic)]
		invalidTurn++
		return acase{Accounts: "basic+casbin", Cred: k, User: "bob", Graph: "g1", Rules: []rule{{"bob", "*", "*"}, {"root", "*", "*"}, {"mallory", "*", "*"}, {"", "*", "*"}, {"Bob", "*", "*"}}}
	}},
	{"invalid-basic/basic-only", func(s *methodSpec) acase {
		k := invalidBasic[invalidTurn%len(invalidBasic)]
		invalidTurn++
		return acase{Accounts: "basic", Cred: k, User: "alice", Graph: "g2"}
	}},
	{"basic-only/valid", func(s *methodSpec) acase { return acase{Accounts: "basic", Cred: "valid", User: "alice", Graph: "g2"} }},
	{"basic-only/wrongpw", func(s *methodSpec) acase { return acase{Accounts: "basic", Cred: "wrongpw", User: "alice", Graph: "g2"} }},
	{"proxy/exact", func(s *methodSpec) acase {
		return acase{Accounts: "proxy+casbin", Cred: "valid", User: "bob", Graph: "g1", Rules: []rule{{"bob", obj(s, "g1"), string(s.Class)}}}
	}},
	{"proxy/ungranted-name", func(s *methodSpec) acase {
		return acase{Accounts: "proxy+casbin", Cred: "unknown", User: "bob", Graph: "g1", Rules: []rule{{"bob", "*", "*"}}}
	}},
	{"proxy/noheader", func(s *methodSpec) acase {
		return acase{Accounts: "proxy+casbin", Cred: "noheader", User: "bob", Graph: "g1", Rules: []rule{{"bob", "*", "*"}}}
	}},
}

// TestMethodMatrix: every descriptor method x transport x fixed scenario.
func TestMethodMatrix(t *testing.T) {
	if replayed(t) {
		return
	}
	names, _ := descriptorMethods()
	i := 0
	seen := map[string]map[string]bool{}
	for _, full := range names {
		spec := byFull[full]
		if spec == nil {
			t.Fatalf("INFRA: descriptor method %s is missing from the harness table", full)
		}
		for _, tr := range transports {
			for _, sc := range scenarios {
				c := sc.build(spec)
				c.Method, c.Transport = full, tr
				if spec.Kind == cstream {
					c.Bulk = mixedBulk
				}
				e := expect(c, spec)
				k := full + "|" + tr
				if seen[k] == nil {
					seen[k] = map[string]bool{}
				}
				seen[k][fmt.Sprint(e.Allowed)] = true
				i++
				if !pbt.ShardOwns(i) {
					continue
				}
				if pbt.WantSample(t) {
					pbt.Sample(t, c)
				}
				runCase(t, c)
			}
		}
	}
	for k, v := range seen {
		if !v["true"] || !v["false"] {
			t.Fatalf("INFRA: %s lacks an allowed or a denied scenario", k)
		}
	}
	pbt.Exhaustive(t)
}

// ---- random policies

func genRule(rt *rapid.T, c acase, spec *methodSpec) rule {
	pick := func(label string, target string, wild string, pool []string) string {
		k := rapid.IntRange(0, 9).Draw(rt, label)
		switch {
		case k < 5 && target != "":
			return target
		case k < 7 && wild != "":
			return wild
		}
		return rapid.SampledFrom(pool).Draw(rt, label+"-any")
	}
	caller := c.User
	if c.Cred == "unknown" {
		caller = "mallory"
	}
	g := c.Graph
	if spec.Kind == cstream && len(c.Bulk) > 0 {
		g = c.Bulk[rapid.IntRange(0, len(c.Bulk)-1).Draw(rt, "bulk-target")]
	}
	return rule{
		Sub: pick("sub", caller, "", []string{"alice", "bob", "mallory", "root"}),
		Obj: pick("obj", g, "*", []string{"g1", "g2", "g1__schema__", "*"}),
		Act: pick("act", string(spec.Class), "*", append([]string{"*"}, classes...)),
	}
}

func genCase(rt *rapid.T) acase {
	spec := table[rapid.IntRange(0, len(table)-1).Draw(rt, "method")]
	if rapid.IntRange(0, 9).Draw(rt, "bulk") == 0 {
		spec = byFull["/gripql.Edit/BulkAdd"] // the one filtered stream gets a tenth of the cases
	}
	c := acase{Method: spec.Full}
	c.Transport = rapid.SampledFrom(transports).Draw(rt, "transport")
	c.Accounts = rapid.SampledFrom([]string{"off", "basic", "basic+casbin", "basic+casbin", "basic+casbin", "basic+casbin", "basic+casbin", "basic+casbin", "proxy+casbin", "proxy+casbin"}).Draw(rt, "accounts")
	c.Cred = rapid.SampledFrom(append([]string{"valid", "valid", "valid", "valid", "valid", "valid", "valid", "valid", "valid", "valid", "valid", "valid", "wrongpw", "unknown", "noheader", "malformed"}, invalidBasic...)).Draw(rt, "cred")
	c.User = rapid.SampledFrom([]string{"alice", "alice", "alice", "bob", "bob", "bob", "root"}).Draw(rt, "user")
	c.Graph = rapid.SampledFrom(graphs).Draw(rt, "graph")
	if spec.Kind == cstream {
		n := rapid.IntRange(0, 8).Draw(rt, "nbulk")
		for i := 0; i < n; i++ {
			c.Bulk = append(c.Bulk, rapid.SampledFrom(graphs).Draw(rt, "bulk-graph"))
		}
	}
	if strings.HasSuffix(c.Accounts, "+casbin") {
		n := rapid.IntRange(0, 6).Draw(rt, "nrules")
		for i := 0; i < n; i++ {
			c.Rules = append(c.Rules, genRule(rt, c, spec))
		}
	}
	return c
}

func TestRandomPolicies(t *testing.T) {
	pbt.Check(t, 40000, 1000000, func(rt *rapid.T) {
		c := genCase(rt)
		if pbt.WantSample(t) {
			pbt.Sample(t, c)
		}
		runCase(rt, c)
	})
}

// TestKnownDefectsConfirmed replays the minimal case of each defect listed in
// findings/ so that each run states whether it is still present.
func TestKnownDefectsConfirmed(t *testing.T) {
	if _, ok := pbt.ReplayFile(); ok {
		t.Skip()
	}
	if pbt.Shard() != 0 {
		t.Skip("confirmation cases run on shard 0")
	}
	for _, c := range []acase{
		{Method: "/gripql.Edit/DeleteIndex", Transport: "grpc", Accounts: "off", Cred: "noheader", User: "bob", Graph: "g1"},
		{Method: "/gripql.Configure/ListPlugins", Transport: "grpc", Accounts: "off", Cred: "noheader", User: "bob", Graph: "g1"},
		{Method: "/gripql.Query/ListTables", Transport: "grpc", Accounts: "basic+casbin", Cred: "valid", User: "bob", Graph: "g1"},
		{Method: "/gripql.Job/ListJobs", Transport: "grpc", Accounts: "basic+casbin", Cred: "valid", User: "bob", Graph: "g1"},
		{Method: "/gripql.Job/SearchJobs", Transport: "direct", Accounts: "basic+casbin", Cred: "valid", User: "bob", Graph: "g1"},
		{Method: "/gripql.Job/ViewJob", Transport: "grpc", Accounts: "basic+casbin", Cred: "valid", User: "bob", Graph: "g1"},
		{Method: "/gripql.Job/ResumeJob", Transport: "direct", Accounts: "basic+casbin", Cred: "valid", User: "bob", Graph: "g1"},
		{Method: "/gripql.Edit/BulkAdd", Transport: "direct", Accounts: "basic", Cred: "wrongpw", User: "bob", Graph: "g1", Bulk: []string{"g1"}},
	} {
		runCase(t, c)
	}
	pbt.Exhaustive(t)
}
