package c05

import (
	"context"
	"io"
	"sync"

	"github.com/bmeg/grip/gripql"
)

// spy implements every method of the four services. Each handler records that it was
// entered, the graph named in the request it was handed, and (BulkAdd) every element it
// received; it then answers with an empty success.
type spy struct {
	gripql.UnimplementedQueryServer
	gripql.UnimplementedJobServer
	gripql.UnimplementedEditServer
	gripql.UnimplementedConfigureServer

	mu    sync.Mutex
	calls []spyCall
}

type spyCall struct {
	Method string   // full method name
	Graph  string   // graph in the request as seen by the handler
	Elems  []string // BulkAdd: "graph/gid" of each element received, in order
}

func (s *spy) reset() {
	s.mu.Lock()
	s.calls = nil
	s.mu.Unlock()
}

func (s *spy) snapshot() []spyCall {
	s.mu.Lock()
	defer s.mu.Unlock()
	return append([]spyCall(nil), s.calls...)
}

func (s *spy) enter(method, graph string) {
	s.mu.Lock()
	s.calls = append(s.calls, spyCall{Method: method, Graph: graph})
	s.mu.Unlock()
}

// ---- Query

func (s *spy) Traversal(q *gripql.GraphQuery, srv gripql.Query_TraversalServer) error {
	s.enter("/gripql.Query/Traversal", q.Graph)
	return srv.Send(&gripql.QueryResult{Result: &gripql.QueryResult_Count{Count: 1}})
}
func (s *spy) GetVertex(ctx context.Context, r *gripql.ElementID) (*gripql.Vertex, error) {
	s.enter("/gripql.Query/GetVertex", r.Graph)
	return &gripql.Vertex{Gid: r.Id}, nil
}
func (s *spy) GetEdge(ctx context.Context, r *gripql.ElementID) (*gripql.Edge, error) {
	s.enter("/gripql.Query/GetEdge", r.Graph)
	return &gripql.Edge{Gid: r.Id}, nil
}
func (s *spy) GetTimestamp(ctx context.Context, r *gripql.GraphID) (*gripql.Timestamp, error) {
	s.enter("/gripql.Query/GetTimestamp", r.Graph)
	return &gripql.Timestamp{}, nil
}
func (s *spy) GetSchema(ctx context.Context, r *gripql.GraphID) (*gripql.Graph, error) {
	s.enter("/gripql.Query/GetSchema", r.Graph)
	return &gripql.Graph{Graph: r.Graph}, nil
}
func (s *spy) GetMapping(ctx context.Context, r *gripql.GraphID) (*gripql.Graph, error) {
	s.enter("/gripql.Query/GetMapping", r.Graph)
	return &gripql.Graph{Graph: r.Graph}, nil
}
func (s *spy) ListGraphs(ctx context.Context, r *gripql.Empty) (*gripql.ListGraphsResponse, error) {
	s.enter("/gripql.Query/ListGraphs", "*")
	return &gripql.ListGraphsResponse{}, nil
}
func (s *spy) ListIndices(ctx context.Context, r *gripql.GraphID) (*gripql.ListIndicesResponse, error) {
	s.enter("/gripql.Query/ListIndices", r.Graph)
	return &gripql.ListIndicesResponse{}, nil
}
func (s *spy) ListLabels(ctx context.Context, r *gripql.GraphID) (*gripql.ListLabelsResponse, error) {
	s.enter("/gripql.Query/ListLabels", r.Graph)
	return &gripql.ListLabelsResponse{}, nil
}
func (s *spy) ListTables(r *gripql.Empty, srv gripql.Query_ListTablesServer) error {
	s.enter("/gripql.Query/ListTables", "*")
	return srv.Send(&gripql.TableInfo{Name: "t"})
}

// ---- Job

func (s *spy) Submit(ctx context.Context, q *gripql.GraphQuery) (*gripql.QueryJob, error) {
	s.enter("/gripql.Job/Submit", q.Graph)
	return &gripql.QueryJob{Graph: q.Graph, Id: "j"}, nil
}
func (s *spy) ListJobs(r *gripql.GraphID, srv gripql.Job_ListJobsServer) error {
	s.enter("/gripql.Job/ListJobs", r.Graph)
	return srv.Send(&gripql.QueryJob{Graph: r.Graph, Id: "j"})
}
func (s *spy) SearchJobs(q *gripql.GraphQuery, srv gripql.Job_SearchJobsServer) error {
	s.enter("/gripql.Job/SearchJobs", q.Graph)
	return srv.Send(&gripql.JobStatus{Graph: q.Graph, Id: "j"})
}
func (s *spy) DeleteJob(ctx context.Context, r *gripql.QueryJob) (*gripql.JobStatus, error) {
	s.enter("/gripql.Job/DeleteJob", r.Graph)
	return &gripql.JobStatus{}, nil
}
func (s *spy) GetJob(ctx context.Context, r *gripql.QueryJob) (*gripql.JobStatus, error) {
	s.enter("/gripql.Job/GetJob", r.Graph)
	return &gripql.JobStatus{}, nil
}
func (s *spy) ViewJob(r *gripql.QueryJob, srv gripql.Job_ViewJobServer) error {
	s.enter("/gripql.Job/ViewJob", r.Graph)
	return srv.Send(&gripql.QueryResult{Result: &gripql.QueryResult_Count{Count: 1}})
}
func (s *spy) ResumeJob(r *gripql.ExtendQuery, srv gripql.Job_ResumeJobServer) error {
	s.enter("/gripql.Job/ResumeJob", r.Graph)
	return srv.Send(&gripql.QueryResult{Result: &gripql.QueryResult_Count{Count: 1}})
}

// ---- Edit

func (s *spy) AddVertex(ctx context.Context, r *gripql.GraphElement) (*gripql.EditResult, error) {
	s.enter("/gripql.Edit/AddVertex", r.Graph)
	return &gripql.EditResult{}, nil
}
func (s *spy) AddEdge(ctx context.Context, r *gripql.GraphElement) (*gripql.EditResult, error) {
	s.enter("/gripql.Edit/AddEdge", r.Graph)
	return &gripql.EditResult{}, nil
}
func (s *spy) BulkAdd(srv gripql.Edit_BulkAddServer) error {
	var elems []string
	for {
		e, err := srv.Recv()
		if err == io.EOF {
			break
		}
		if err != nil {
			// record what was seen so far; the transport ended the stream
			s.mu.Lock()
			s.calls = append(s.calls, spyCall{Method: "/gripql.Edit/BulkAdd", Elems: elems})
			s.mu.Unlock()
			return err
		}
		elems = append(elems, e.Graph+"/"+e.GetVertex().GetGid())
	}
	s.mu.Lock()
	s.calls = append(s.calls, spyCall{Method: "/gripql.Edit/BulkAdd", Elems: elems})
	s.mu.Unlock()
	return srv.SendAndClose(&gripql.BulkEditResult{InsertCount: int32(len(elems))})
}
func (s *spy) AddGraph(ctx context.Context, r *gripql.GraphID) (*gripql.EditResult, error) {
	s.enter("/gripql.Edit/AddGraph", r.Graph)
	return &gripql.EditResult{}, nil
}
func (s *spy) DeleteGraph(ctx context.Context, r *gripql.GraphID) (*gripql.EditResult, error) {
	s.enter("/gripql.Edit/DeleteGraph", r.Graph)
	return &gripql.EditResult{}, nil
}
func (s *spy) DeleteVertex(ctx context.Context, r *gripql.ElementID) (*gripql.EditResult, error) {
	s.enter("/gripql.Edit/DeleteVertex", r.Graph)
	return &gripql.EditResult{}, nil
}
func (s *spy) DeleteEdge(ctx context.Context, r *gripql.ElementID) (*gripql.EditResult, error) {
	s.enter("/gripql.Edit/DeleteEdge", r.Graph)
	return &gripql.EditResult{}, nil
}
func (s *spy) AddIndex(ctx context.Context, r *gripql.IndexID) (*gripql.EditResult, error) {
	s.enter("/gripql.Edit/AddIndex", r.Graph)
	return &gripql.EditResult{}, nil
}
func (s *spy) DeleteIndex(ctx context.Context, r *gripql.IndexID) (*gripql.EditResult, error) {
	s.enter("/gripql.Edit/DeleteIndex", r.Graph)
	return &gripql.EditResult{}, nil
}
func (s *spy) AddSchema(ctx context.Context, r *gripql.Graph) (*gripql.EditResult, error) {
	s.enter("/gripql.Edit/AddSchema", r.Graph)
	return &gripql.EditResult{}, nil
}
func (s *spy) SampleSchema(ctx context.Context, r *gripql.GraphID) (*gripql.Graph, error) {
	s.enter("/gripql.Edit/SampleSchema", r.Graph)
	return &gripql.Graph{Graph: r.Graph}, nil
}
func (s *spy) AddMapping(ctx context.Context, r *gripql.Graph) (*gripql.EditResult, error) {
	s.enter("/gripql.Edit/AddMapping", r.Graph)
	return &gripql.EditResult{}, nil
}

// ---- Configure

func (s *spy) StartPlugin(ctx context.Context, r *gripql.PluginConfig) (*gripql.PluginStatus, error) {
	s.enter("/gripql.Configure/StartPlugin", "*")
	return &gripql.PluginStatus{Name: r.Name}, nil
}
func (s *spy) ListPlugins(ctx context.Context, r *gripql.Empty) (*gripql.ListPluginsResponse, error) {
	s.enter("/gripql.Configure/ListPlugins", "*")
	return &gripql.ListPluginsResponse{}, nil
}
func (s *spy) ListDrivers(ctx context.Context, r *gripql.Empty) (*gripql.ListDriversResponse, error) {
	s.enter("/gripql.Configure/ListDrivers", "*")
	return &gripql.ListDriversResponse{}, nil
}
