package c05

// Level (ii): a live GripServer (server.NewGripServer + Serve) on loopback ports with a
// Badger store under the run's scratch directory. Calls are made over gRPC and over the
// HTTP gateway (net/http); effects are observed afterwards as the all-powerful user.

import (
	"bytes"
	"context"
	"encoding/json"
	"fmt"
	"io"
	"net"
	"net/http"
	"os"
	"path/filepath"
	"strings"
	"sync"
	"testing"
	"time"

	"github.com/bmeg/grip/accounts"
	"github.com/bmeg/grip/config"
	"github.com/bmeg/grip/gripql"
	"github.com/bmeg/grip/server"
	"google.golang.org/grpc"
	"google.golang.org/grpc/codes"
	"google.golang.org/grpc/credentials/insecure"
	"google.golang.org/grpc/metadata"
	"google.golang.org/grpc/status"
	"verif/internal/pbt"
)

// fixed policy of the live server (Casbin reads it once)
var livePolicy = []rule{
	{"alice", "*", "*"},
	{"bob", "g1", "read"},
	{"bob", "g1", "query"},
	{"bob", "g2", "write"},
	{"carol", "g1", "exec"},
	{"carol", "*", "read"},
}

var livePasswords = map[string]string{"alice": "pw-alice", "bob": "pw-bob", "carol": "pw-carol", "dave": "pw-dave"}

type liveServer struct {
	accounts bool
	rpcAddr  string
	httpBase string
	conn     *grpc.ClientConn
	cl       clients
	cancel   context.CancelFunc
	done     chan error
	hc       *http.Client
	seq      int
	jobs     map[string]string
}

var (
	liveMu   sync.Mutex
	liveOn   *liveServer
	liveOff  *liveServer
	liveErrs = map[bool]error{}
)

func freePort() (string, error) {
	l, err := net.Listen("tcp", "127.0.0.1:0")
	if err != nil {
		return "", err
	}
	defer l.Close()
	return fmt.Sprint(l.Addr().(*net.TCPAddr).Port), nil
}

func aliceCtx(ctx context.Context) context.Context {
	return metadata.NewOutgoingContext(ctx, metadata.Pairs("authorization", basicHeader("alice", livePasswords["alice"])))
}

func startLive(withAccounts bool) (*liveServer, error) {
	dir := pbt.ScratchDir("c05-live-")
	var lastErr error
	for attempt := 0; attempt < 6; attempt++ {
		s, err := tryStartLive(withAccounts, filepath.Join(dir, fmt.Sprintf("a%d", attempt)))
		if err == nil {
			return s, nil
		}
		lastErr = err
	}
	return nil, lastErr
}

func tryStartLive(withAccounts bool, dir string) (*liveServer, error) {
	if err := os.MkdirAll(dir, 0o755); err != nil {
		return nil, err
	}
	rpcPort, err := freePort()
	if err != nil {
		return nil, err
	}
	httpPort, err := freePort()
	if err != nil {
		return nil, err
	}
	conf := config.DefaultConfig()
	conf.Server.HostName = "127.0.0.1"
	conf.Server.RPCPort = rpcPort
	conf.Server.HTTPPort = httpPort
	conf.Server.WorkDir = filepath.Join(dir, "work")
	db := filepath.Join(dir, "badger.db")
	conf.Drivers["badger"] = config.DriverConfig{Badger: &db}
	conf.Default = "badger"
	if withAccounts {
		scratch()
		pol := filepath.Join(dir, "policy.csv")
		if err := os.WriteFile(pol, []byte(policyText(livePolicy)), 0o644); err != nil {
			return nil, err
		}
		ba := accounts.BasicAuth{}
		for _, u := range []string{"alice", "bob", "carol", "dave"} {
			ba = append(ba, accounts.BasicCredential{User: u, Password: livePasswords[u]})
		}
		conf.Server.Accounts = accounts.Config{
			Auth:   &accounts.AuthConfig{Basic: &ba},
			Access: &accounts.AccessConfig{Casbin: &accounts.CasbinAccess{Model: modelPath, Policy: pol}},
		}
	}
	srv, err := server.NewGripServer(conf, dir, nil)
	if err != nil {
		return nil, err
	}
	ctx, cancel := context.WithCancel(context.Background())
	s := &liveServer{accounts: withAccounts, rpcAddr: "127.0.0.1:" + rpcPort, httpBase: "http://127.0.0.1:" + httpPort,
		cancel: cancel, done: make(chan error, 1), hc: &http.Client{Timeout: callTimeout}}
	go func() { s.done <- srv.Serve(ctx) }()
	fail := func(err error) (*liveServer, error) {
		cancel()
		if s.conn != nil {
			s.conn.Close()
		}
		return nil, err
	}
	// wait until both listeners answer (readiness only, not an oracle)
	dctx, dcancel := context.WithTimeout(ctx, 20*time.Second)
	defer dcancel()
	conn, err := grpc.DialContext(dctx, s.rpcAddr, grpc.WithTransportCredentials(insecure.NewCredentials()), grpc.WithBlock())
	if err != nil {
		return fail(fmt.Errorf("dial %s: %v", s.rpcAddr, err))
	}
	s.conn = conn
	s.cl = clients{Q: gripql.NewQueryClient(conn), J: gripql.NewJobClient(conn), E: gripql.NewEditClient(conn), C: gripql.NewConfigureClient(conn)}
	// identity: a marker graph created over gRPC must be visible over HTTP, otherwise one
	// of the two ports belongs to somebody else (another shard raced us to it)
	marker := fmt.Sprintf("marker%dx%d", os.Getpid(), time.Now().UnixNano()%1000000)
	actx := aliceCtx(ctx)
	for _, g := range []string{marker, "g1", "g2"} {
		if _, err := s.cl.E.AddGraph(actx, &gripql.GraphID{Graph: g}); err != nil {
			return fail(fmt.Errorf("setup AddGraph %s: %v", g, err))
		}
	}
	ok := false
	for i := 0; i < 200 && !ok; i++ {
		select {
		case e := <-s.done:
			return fail(fmt.Errorf("server stopped during start-up: %v", e))
		default:
		}
		st, body, err := s.httpDo("GET", "/v1/graph", "", "alice", "valid")
		if err == nil && st == 200 && strings.Contains(body, marker) {
			ok = true
			break
		}
		if err == nil && st == 200 {
			return fail(fmt.Errorf("HTTP port answers for a different server"))
		}
		time.Sleep(50 * time.Millisecond)
	}
	if !ok {
		return fail(fmt.Errorf("HTTP gateway did not come up"))
	}
	for _, g := range []string{"g1", "g2"} {
		if _, err := s.cl.E.AddVertex(actx, &gripql.GraphElement{Graph: g, Vertex: &gripql.Vertex{Gid: "v1", Label: "L"}}); err != nil {
			return fail(fmt.Errorf("setup AddVertex: %v", err))
		}
	}
	return s, nil
}

func getLive(t pbt.TB, withAccounts bool) *liveServer {
	liveMu.Lock()
	defer liveMu.Unlock()
	p := &liveOff
	if withAccounts {
		p = &liveOn
	}
	if *p != nil {
		return *p
	}
	if liveErrs[withAccounts] != nil {
		return nil
	}
	s, err := startLive(withAccounts)
	if err != nil {
		liveErrs[withAccounts] = err
		t.Logf("live server (accounts=%v) could not be started: %v", withAccounts, err)
		return nil
	}
	*p = s
	return s
}

func stopLive() {
	for _, s := range []*liveServer{liveOn, liveOff} {
		if s == nil {
			continue
		}
		s.conn.Close()
		s.cancel()
		select {
		case <-s.done:
		case <-time.After(10 * time.Second):
		}
	}
}

func (s *liveServer) httpDo(method, path, body, user, cred string) (int, string, error) {
	req, err := http.NewRequest(method, s.httpBase+path, bytes.NewBufferString(body))
	if err != nil {
		return 0, "", err
	}
	switch cred {
	case "valid":
		req.SetBasicAuth(user, livePasswords[user])
	case "wrongpw":
		req.SetBasicAuth(user, "not-the-password")
	case "noheader":
	}
	resp, err := s.hc.Do(req)
	if err != nil {
		return 0, "", err
	}
	defer resp.Body.Close()
	b, _ := io.ReadAll(resp.Body)
	return resp.StatusCode, string(b), nil
}

func (s *liveServer) callerCtx(ctx context.Context, user, cred string) context.Context {
	switch cred {
	case "valid":
		return metadata.NewOutgoingContext(ctx, metadata.Pairs("authorization", basicHeader(user, livePasswords[user])))
	case "wrongpw":
		return metadata.NewOutgoingContext(ctx, metadata.Pairs("authorization", basicHeader(user, "not-the-password")))
	}
	return ctx
}

// observations made as alice over gRPC
func (s *liveServer) hasVertex(g, id string) bool {
	_, err := s.cl.Q.GetVertex(aliceCtx(context.Background()), &gripql.ElementID{Graph: g, Id: id})
	return err == nil
}
func (s *liveServer) hasGraph(g string) bool {
	r, err := s.cl.Q.ListGraphs(aliceCtx(context.Background()), &gripql.Empty{})
	if err != nil {
		return false
	}
	for _, x := range r.Graphs {
		if x == g {
			return true
		}
	}
	return false
}
func (s *liveServer) jobCount(g string) int {
	st, err := s.cl.J.ListJobs(aliceCtx(context.Background()), &gripql.GraphID{Graph: g})
	if err != nil {
		return -1
	}
	n := 0
	for {
		_, err := st.Recv()
		if err != nil {
			break
		}
		n++
	}
	return n
}
func (s *liveServer) hasIndex(g, field string) bool {
	r, err := s.cl.Q.ListIndices(aliceCtx(context.Background()), &gripql.GraphID{Graph: g})
	if err != nil {
		return false
	}
	for _, x := range r.Indices {
		if x.Field == field {
			return true
		}
	}
	return false
}

// ---------------------------------------------------------------------------------

type liveCase struct {
	Op        string `json:"op"`
	Transport string `json:"transport"` // grpc | http
	Accounts  bool   `json:"accounts"`
	User      string `json:"user"`
	Cred      string `json:"cred"` // valid | wrongpw | noheader
	Graph     string `json:"graph"`
}

// outcome of the call proper
type liveResult struct {
	OK     bool // call succeeded (nil error / HTTP 200)
	Denied bool // Unauthenticated/PermissionDenied (HTTP 401/403)
	Rows   int  // streamed rows received
	Detail string
}

type liveOp struct {
	Name      string
	FreshName bool // the request names a graph made up for the case (AddGraph/DeleteGraph)
	Rows      bool // "returned data" means at least one streamed row
	prep      func(s *liveServer, g, id string) error
	grpc      func(ctx context.Context, cl clients, g, id string) error
	http      func(g, id string) (method, path, body string)
	// effect reports, as seen by alice afterwards, whether the call's effect happened;
	// nil for calls whose only outcome is the response
	effect func(s *liveServer, g, id string, before int) bool
	before func(s *liveServer, g, id string) int
}

const vQuery = `{"query":[{"v":[]}]}`

// rows received by the last streamed gRPC call (cases run one at a time)
var lastRows int

// id of the job prepared for the current ViewJob case
var liveJob string

func drainCount[T any](st interface{ Recv() (T, error) }, err error) error {
	lastRows = 0
	if err != nil {
		return err
	}
	for {
		_, e := st.Recv()
		if e == io.EOF {
			return nil
		}
		if e != nil {
			return e
		}
		lastRows++
	}
}

// submitAndWait runs V() as a stored job on g as alice and waits for it to complete
// (ViewJob only serves completed jobs). Readiness polling, not an oracle.
func (s *liveServer) submitAndWait(g string) (string, error) {
	if id, ok := s.jobs[g]; ok {
		return id, nil // one completed job per graph serves all ViewJob cases
	}
	id, err := s.submitAndWait1(g)
	if err == nil {
		if s.jobs == nil {
			s.jobs = map[string]string{}
		}
		s.jobs[g] = id
	}
	return id, err
}

func (s *liveServer) submitAndWait1(g string) (string, error) {
	ctx := aliceCtx(context.Background())
	j, err := s.cl.J.Submit(ctx, &gripql.GraphQuery{Graph: g, Query: gripql.NewQuery().V().Statements})
	if err != nil {
		return "", err
	}
	for i := 0; i < 400; i++ {
		st, err := s.cl.J.GetJob(ctx, &gripql.QueryJob{Graph: g, Id: j.Id})
		if err != nil {
			return "", err
		}
		if st.State == gripql.JobState_COMPLETE {
			return j.Id, nil
		}
		time.Sleep(25 * time.Millisecond)
	}
	return "", fmt.Errorf("job %s did not complete", j.Id)
}

var liveOps = []liveOp{
	{Name: "GetVertex",
		grpc: func(ctx context.Context, cl clients, g, id string) error {
			return one(cl.Q.GetVertex(ctx, &gripql.ElementID{Graph: g, Id: "v1"}))
		},
		http: func(g, id string) (string, string, string) { return "GET", "/v1/graph/" + g + "/vertex/v1", "" }},
	{Name: "ListLabels",
		grpc: func(ctx context.Context, cl clients, g, id string) error {
			return one(cl.Q.ListLabels(ctx, &gripql.GraphID{Graph: g}))
		},
		http: func(g, id string) (string, string, string) { return "GET", "/v1/graph/" + g + "/label", "" }},
	{Name: "ListGraphs",
		grpc: func(ctx context.Context, cl clients, g, id string) error {
			return one(cl.Q.ListGraphs(ctx, &gripql.Empty{}))
		},
		http: func(g, id string) (string, string, string) { return "GET", "/v1/graph", "" }},
	{Name: "Traversal", Rows: true,
		grpc: func(ctx context.Context, cl clients, g, id string) error {
			return drainCount[*gripql.QueryResult](cl.Q.Traversal(ctx, &gripql.GraphQuery{Graph: g, Query: gripql.NewQuery().V().Statements}))
		},
		http: func(g, id string) (string, string, string) { return "POST", "/v1/graph/" + g + "/query", vQuery }},
	{Name: "AddVertex",
		grpc: func(ctx context.Context, cl clients, g, id string) error {
			return one(cl.E.AddVertex(ctx, &gripql.GraphElement{Graph: g, Vertex: &gripql.Vertex{Gid: id, Label: "L"}}))
		},
		http: func(g, id string) (string, string, string) {
			return "POST", "/v1/graph/" + g + "/vertex", `{"gid":"` + id + `","label":"L"}`
		},
		effect: func(s *liveServer, g, id string, _ int) bool { return s.hasVertex(g, id) }},
	{Name: "DeleteVertex",
		prep: func(s *liveServer, g, id string) error {
			return one(s.cl.E.AddVertex(aliceCtx(context.Background()), &gripql.GraphElement{Graph: g, Vertex: &gripql.Vertex{Gid: id, Label: "L"}}))
		},
		grpc: func(ctx context.Context, cl clients, g, id string) error {
			return one(cl.E.DeleteVertex(ctx, &gripql.ElementID{Graph: g, Id: id}))
		},
		http:   func(g, id string) (string, string, string) { return "DELETE", "/v1/graph/" + g + "/vertex/" + id, "" },
		effect: func(s *liveServer, g, id string, _ int) bool { return !s.hasVertex(g, id) }},
	{Name: "AddGraph", FreshName: true,
		grpc: func(ctx context.Context, cl clients, g, id string) error {
			return one(cl.E.AddGraph(ctx, &gripql.GraphID{Graph: g}))
		},
		http:   func(g, id string) (string, string, string) { return "POST", "/v1/graph/" + g, "" },
		effect: func(s *liveServer, g, id string, _ int) bool { return s.hasGraph(g) }},
	{Name: "DeleteGraph", FreshName: true,
		prep: func(s *liveServer, g, id string) error {
			return one(s.cl.E.AddGraph(aliceCtx(context.Background()), &gripql.GraphID{Graph: g}))
		},
		grpc: func(ctx context.Context, cl clients, g, id string) error {
			return one(cl.E.DeleteGraph(ctx, &gripql.GraphID{Graph: g}))
		},
		http:   func(g, id string) (string, string, string) { return "DELETE", "/v1/graph/" + g, "" },
		effect: func(s *liveServer, g, id string, _ int) bool { return !s.hasGraph(g) }},
	{Name: "AddIndex",
		grpc: func(ctx context.Context, cl clients, g, id string) error {
			return one(cl.E.AddIndex(ctx, &gripql.IndexID{Graph: g, Label: "L", Field: id}))
		},
		http: func(g, id string) (string, string, string) {
			return "POST", "/v1/graph/" + g + "/index/L", `{"field":"` + id + `"}`
		},
		effect: func(s *liveServer, g, id string, _ int) bool { return s.hasIndex(g, id) }},
	{Name: "DeleteIndex",
		prep: func(s *liveServer, g, id string) error {
			return one(s.cl.E.AddIndex(aliceCtx(context.Background()), &gripql.IndexID{Graph: g, Label: "L", Field: id}))
		},
		grpc: func(ctx context.Context, cl clients, g, id string) error {
			return one(cl.E.DeleteIndex(ctx, &gripql.IndexID{Graph: g, Label: "L", Field: id}))
		},
		http:   func(g, id string) (string, string, string) { return "DELETE", "/v1/graph/" + g + "/index/L/" + id, "" },
		effect: func(s *liveServer, g, id string, _ int) bool { return !s.hasIndex(g, id) }},
	{Name: "Submit",
		grpc: func(ctx context.Context, cl clients, g, id string) error {
			return one(cl.J.Submit(ctx, &gripql.GraphQuery{Graph: g, Query: gripql.NewQuery().V().Statements}))
		},
		http:   func(g, id string) (string, string, string) { return "POST", "/v1/graph/" + g + "/job", vQuery },
		before: func(s *liveServer, g, id string) int { return s.jobCount(g) },
		effect: func(s *liveServer, g, id string, before int) bool { return s.jobCount(g) == before+1 }},
	{Name: "ListJobs",
		grpc: func(ctx context.Context, cl clients, g, id string) error {
			return drain[*gripql.QueryJob](cl.J.ListJobs(ctx, &gripql.GraphID{Graph: g}))
		},
		http: func(g, id string) (string, string, string) { return "GET", "/v1/graph/" + g + "/job", "" }},
	{Name: "ViewJob", Rows: true,
		prep: func(s *liveServer, g, id string) error {
			j, err := s.submitAndWait(g)
			liveJob = j
			return err
		},
		grpc: func(ctx context.Context, cl clients, g, id string) error {
			return drainCount[*gripql.QueryResult](cl.J.ViewJob(ctx, &gripql.QueryJob{Graph: g, Id: liveJob}))
		},
		http: func(g, id string) (string, string, string) { return "POST", "/v1/graph/" + g + "/job/" + liveJob, "{}" }},
	{Name: "ListTables",
		grpc: func(ctx context.Context, cl clients, g, id string) error {
			return drain[*gripql.TableInfo](cl.Q.ListTables(ctx, &gripql.Empty{}))
		},
		http: func(g, id string) (string, string, string) { return "GET", "/v1/table", "" }},
	{Name: "ListDrivers",
		grpc: func(ctx context.Context, cl clients, g, id string) error {
			return one(cl.C.ListDrivers(ctx, &gripql.Empty{}))
		},
		http: func(g, id string) (string, string, string) { return "GET", "/v1/driver", "" }},
	{Name: "ListPlugins",
		grpc: func(ctx context.Context, cl clients, g, id string) error {
			return one(cl.C.ListPlugins(ctx, &gripql.Empty{}))
		},
		http: func(g, id string) (string, string, string) { return "GET", "/v1/plugin", "" }},
	{Name: "BulkAdd"},
}

var liveOpByName = func() map[string]*liveOp {
	m := map[string]*liveOp{}
	for i := range liveOps {
		m[liveOps[i].Name] = &liveOps[i]
	}
	return m
}()

func specByName(name string) *methodSpec {
	for _, s := range table {
		if s.Name == name {
			return s
		}
	}
	return nil
}

func (c liveCase) authenticate() (bool, string) {
	if !c.Accounts {
		return true, ""
	}
	return c.Cred == "valid", c.User
}

func (c liveCase) permitted(caller, graph string, class accounts.Operation) bool {
	if !c.Accounts {
		return true
	}
	ok, _ := grants(livePolicy, caller, graph, string(class))
	return ok
}

// the signature's transport component names the code path: the HTTP gateway is the
// in-process Direct client
func (c liveCase) path() string {
	if c.Transport == "http" {
		return "direct"
	}
	return c.Transport
}

func runLive(t pbt.TB, c liveCase) {
	mute()
	op := liveOpByName[c.Op]
	spec := specByName(c.Op)
	if op == nil || spec == nil {
		t.Fatalf("INFRA: unknown live op %q", c.Op)
	}
	s := getLive(t, c.Accounts)
	if s == nil {
		pbt.Inconclusive(t, "live server could not be started")
		return
	}
	pbt.Case(t)
	s.seq++
	id := fmt.Sprintf("x%dn%d", pbt.Shard(), s.seq)
	g := c.Graph
	if op.FreshName {
		g = "fresh" + id
	}
	if c.Op == "BulkAdd" {
		runLiveBulk(t, c, s, id)
		return
	}
	authOK, caller := c.authenticate()
	pg := g
	if spec.Graphless {
		pg = "*"
	}
	allowed := authOK && c.permitted(caller, pg, spec.Class)
	verdict := "denied"
	if allowed {
		verdict = "allowed"
	}
	pbt.Class(t, "live:"+c.Op+":"+c.Transport+":"+verdict)
	if c.Accounts && authOK && caller != "alice" {
		pbt.Nontrivial(t, fmt.Sprintf("live|%s|%s|%s|%s", c.Op, c.Transport, c.User, c.Graph))
	}
	if op.prep != nil {
		if err := op.prep(s, g, id); err != nil {
			pbt.Inconclusive(t, "live preparation failed: "+c.Op)
			return
		}
	}
	before := 0
	if op.before != nil {
		before = op.before(s, g, id)
	}
	var res liveResult
	if c.Transport == "grpc" {
		ctx, cancel := context.WithTimeout(context.Background(), callTimeout)
		err := op.grpc(s.callerCtx(ctx, c.User, c.Cred), s.cl, g, id)
		cancel()
		code := status.Code(err)
		if code == codes.DeadlineExceeded {
			pbt.Inconclusive(t, "call budget expired")
			return
		}
		res = liveResult{OK: err == nil, Denied: denialCode(code), Detail: fmt.Sprintf("gRPC code=%s err=%v", code, err)}
		if op.Rows {
			res.Rows = lastRows
			res.Detail += fmt.Sprintf(" rows=%d", lastRows)
		}
	} else {
		m, p, b := op.http(g, id)
		st, body, err := s.httpDo(m, p, b, c.User, c.Cred)
		if err != nil {
			pbt.Inconclusive(t, "http transport error")
			return
		}
		rows := 0
		if st == 200 {
			for _, ln := range strings.Split(body, "\n") {
				if strings.TrimSpace(ln) != "" {
					rows++
				}
			}
		}
		if len(body) > 200 {
			body = body[:200]
		}
		res = liveResult{OK: st == 200, Denied: st == 401 || st == 403, Rows: rows, Detail: fmt.Sprintf("HTTP %s %s -> %d %s", m, p, st, strings.TrimSpace(body))}
	}
	happened := res.OK
	if op.Rows {
		happened = res.OK && res.Rows > 0
	}
	if op.effect != nil {
		happened = op.effect(s, g, id, before)
	}
	explain := func() string {
		return fmt.Sprintf("live %s via %s (accounts=%v) as %s/%s on graph %q, policy=%v: class=%s allowed=%v; response: %s; effect observed=%v",
			c.Op, c.Transport, c.Accounts, c.User, c.Cred, g, livePolicy, spec.Class, allowed, res.Detail, happened)
	}
	unknownMethod := strings.Contains(res.Detail, "Unknown method")
	switch {
	case allowed && happened && res.OK:
	case allowed:
		sig := "over-deny:" + c.Op + ":" + c.path()
		if unknownMethod {
			sig = "unmapped:" + c.Op
		}
		discrepancy(t, c, sig, "%s [a granted call did not take effect]", explain())
	case happened:
		sig := "no-enforce:" + c.Op + ":" + c.path()
		if !authOK {
			sig = "no-auth:" + c.Op + ":" + c.path()
		}
		if spec.Full[:len("/gripql.Configure/")] == "/gripql.Configure/" && c.Transport == "http" {
			sig = "unmediated:Configure:http-plugins-disabled"
		}
		discrepancy(t, c, sig, "%s [the call took effect / returned data although it is not permitted]", explain())
	case !res.Denied:
		sig := "wrong-code:" + c.Op + ":" + c.path()
		if unknownMethod {
			sig = "unmapped:" + c.Op
		}
		discrepancy(t, c, sig, "%s [refused, but not with an authentication/permission error]", explain())
	}
}

func runLiveBulk(t pbt.TB, c liveCase, s *liveServer, id string) {
	authOK, caller := c.authenticate()
	type el struct{ g, id string }
	other := "g1"
	if c.Graph == "g1" {
		other = "g2"
	}
	elems := []el{{other, id + "a"}, {c.Graph, id + "b"}, {other, id + "c"}, {c.Graph, id + "d"}}
	if authOK && c.permitted(caller, "g1", accounts.Write) && c.permitted(caller, "g2", accounts.Write) {
		// GripServer.BulkAdd itself loses or misroutes elements when the stream it is handed
		// switches between graphs (its per-graph goroutine captures the reassigned
		// elementStream variable, server/api.go:222-312). That is not an authorization
		// matter; keep the permitted part of the stream on one graph.
		pbt.Avoided("server-bulkadd-graph-switch-race(outside C05)")
		elems = []el{{c.Graph, id + "b"}, {c.Graph, id + "d"}}
	}
	if !authOK && c.Transport == "http" {
		// the gateway never answers a refused BulkAdd (hang:BulkAdd:direct, shown at level i)
		pbt.Avoided("C05-hang-bulkadd-direct")
		return
	}
	want := map[string]bool{}
	nwant := 0
	for _, e := range elems {
		if authOK && c.permitted(caller, e.g, accounts.Write) {
			want[e.g+"/"+e.id] = true
			nwant++
		}
	}
	pbt.Class(t, fmt.Sprintf("live:BulkAdd:%s:permitted=%d/%d", c.Transport, nwant, len(elems)))
	if nwant > 0 && nwant < len(elems) {
		pbt.Nontrivial(t, fmt.Sprintf("live|BulkAdd|%s|%s", c.Transport, c.User))
	}
	detail := ""
	denied := false
	if c.Transport == "grpc" {
		ctx, cancel := context.WithTimeout(context.Background(), callTimeout)
		defer cancel()
		st, err := s.cl.E.BulkAdd(s.callerCtx(ctx, c.User, c.Cred))
		if err == nil {
			for _, e := range elems {
				if st.Send(&gripql.GraphElement{Graph: e.g, Vertex: &gripql.Vertex{Gid: e.id, Label: "L"}}) != nil {
					break
				}
			}
			_, err = st.CloseAndRecv()
		}
		denied = denialCode(status.Code(err))
		detail = fmt.Sprintf("gRPC code=%s err=%v", status.Code(err), err)
	} else {
		var b strings.Builder
		for _, e := range elems {
			j, _ := json.Marshal(map[string]interface{}{"graph": e.g, "vertex": map[string]string{"gid": e.id, "label": "L"}})
			b.Write(j)
			b.WriteString("\n")
		}
		st, body, err := s.httpDo("POST", "/v1/graph", b.String(), c.User, c.Cred)
		if err != nil {
			pbt.Inconclusive(t, "http transport error")
			return
		}
		denied = st == 401 || st == 403
		detail = fmt.Sprintf("HTTP POST /v1/graph -> %d %s", st, strings.TrimSpace(body))
	}
	for _, e := range elems {
		k := e.g + "/" + e.id
		stored := s.hasVertex(e.g, e.id)
		switch {
		case stored && !want[k]:
			discrepancy(t, c, "bulk-filter:leak", "live BulkAdd via %s as %s/%s: element %s was stored although the caller may not write %s (policy %v); response: %s", c.Transport, c.User, c.Cred, k, e.g, livePolicy, detail)
			return
		case !stored && want[k]:
			discrepancy(t, c, "bulk-filter:dropped", "live BulkAdd via %s as %s/%s: permitted element %s was not stored; response: %s", c.Transport, c.User, c.Cred, k, detail)
			return
		}
	}
	if !authOK && !denied {
		discrepancy(t, c, "wrong-code:BulkAdd:"+c.path(), "live BulkAdd via %s as %s/%s: refused without an authentication error; response: %s", c.Transport, c.User, c.Cred, detail)
	}
}

var liveCallers = []struct{ user, cred string }{
	{"alice", "valid"}, {"bob", "valid"}, {"carol", "valid"}, {"dave", "valid"}, {"bob", "wrongpw"}, {"", "noheader"},
}

func TestLive(t *testing.T) {
	if cf, ok := pbt.ReplayFile(); ok {
		if cf.Test != "TestLive" {
			t.Skip()
		}
		var c liveCase
		if err := json.Unmarshal(cf.Case, &c); err != nil {
			t.Fatal(err)
		}
		runLive(t, c)
		return
	}
	i := 0
	for _, acc := range []bool{true, false} {
		for _, op := range liveOps {
			for _, tr := range []string{"grpc", "http"} {
				for _, g := range []string{"g1", "g2"} {
					for _, who := range liveCallers {
						if !acc && who.cred != "noheader" && who.user != "bob" {
							continue // without accounts the caller does not matter: anonymous, bob, bob/wrongpw
						}
						i++
						if !pbt.ShardOwns(i) {
							continue
						}
						c := liveCase{Op: op.Name, Transport: tr, Accounts: acc, User: who.user, Cred: who.cred, Graph: g}
						if pbt.WantSample(t) {
							pbt.Sample(t, c)
						}
						runLive(t, c)
					}
				}
			}
		}
	}
	pbt.Exhaustive(t)
}
