// Package c15: a gripper-mapped graph is exactly the graph its mapping describes.
package c15

import (
	"context"
	"encoding/json"
	"fmt"
	"io"
	stdlog "log"
	"net"
	"os"
	"regexp"
	"sort"
	"strings"
	"sync"
	"sync/atomic"
	"testing"
	"time"

	"github.com/bmeg/grip/engine/pipeline"
	"github.com/bmeg/grip/gdbi"
	"github.com/bmeg/grip/gripper"
	"github.com/bmeg/grip/gripql"
	"google.golang.org/grpc"
	"google.golang.org/grpc/credentials/insecure"
	"google.golang.org/grpc/test/bufconn"
	"verif/internal/gripx"
	"verif/internal/model"
	"verif/internal/pbt"
	"verif/internal/quiesce"
)

func TestMain(m *testing.M) {
	// the repository's table server logs every row request through the std logger
	stdlog.SetOutput(io.Discard)
	// every move costs one gRPC round trip per traveler: keep intermediate results small
	model.MaxRows = 400
	code := pbt.Main(m, pbt.Meta{
		Property: "C15",
		Level:    "exploration",
		Rule: "table sets (1-4 vertex tables and 0-3 link tables of 0-6 rows; row ids from a small pool incl. ids with '-' and ':'; link fields string/number/null/missing/empty, links to missing rows, repeated links, vertex tables sharing a label, prefixes that are prefixes of one another, link tables mapped in both directions, vertex tables used as link tables) x the matching mapping (plain field names, as in gripper/test-graph/swapi.yaml) x C01-grammar traversals (length <=7, biased towards V()/V(ids)/E()/E(ids) followed by 1-3 hasLabel, V(id), E(id), labelled moves), ids rewritten to ids of the mapped graph. " +
			"Tables are served by gripper.NewSimpleTableServer(NewDriverPreload) over bufconn; gripper.NewTabularGraph on the client. Three-way comparison: TabularGraph vs reference interpreter on the abstract graph (vertex per row: prefix+row id, mapped label, row as data; edge per link row with non-empty string endpoints, id from-label-to) vs kvgraph/Badger loaded with the abstract graph (multiset equality; count and sub-multiset relations after limit/skip/range/distinct). Writes must fail and change nothing. " +
			"Non-trivial: (>=1 edge in the mapped graph and the traversal has >=1 move) or the traversal starts with ids or with hasLabel right after the start; distinct = distinct (tables, mapping, traversal) text.",
		Assumptions: []string{
			"the table driver reports every mapped link field as a search field (NewDriverPreload derives search fields from the rows, so an empty link table would make NewTabularGraph refuse the mapping; a thin Driver wrapper adds the mapped fields)",
			"edge ids are judged against from-label-to (the only scheme TabularGraph.ParseEdge can read back); a mismatch that disappears when edge ids are projected out gets an edge-id:* signature",
			"repeated links give several edges with one id: E(id) on such an id is not judged and the kvgraph leg (unique ids required) is skipped for those graphs",
			"row order is never asserted; traversals the reference interpreter marks unspecified (edge-label arguments on moves from edges, null-emitting moves, undefined has() cells) are counted and not judged",
		},
	})
	gripx.Cleanup()
	os.Exit(code)
}

// ---------------------------------------------------------------------------------
// case form

// Row is one table row: its id and its document.
type Row struct {
	ID   string                 `json:"id"`
	Data map[string]interface{} `json:"data"`
}

// Table is one collection of the table server.
type Table struct {
	Name string `json:"name"`
	Rows []Row  `json:"rows"`
}

// VMap maps a table to a vertex type (the mapping key is the id prefix).
type VMap struct {
	Prefix string `json:"prefix"`
	Label  string `json:"label"`
	Table  string `json:"table"`
}

// EMap maps a link table to an edge type.
type EMap struct {
	Name      string `json:"name"`
	From      string `json:"from"` // vertex prefix
	To        string `json:"to"`
	Label     string `json:"label"`
	Table     string `json:"table"`
	FromField string `json:"from_field"`
	ToField   string `json:"to_field"`
}

// Case is one (tables, mapping, observation) triple. Exactly one of Steps / Writes /
// Labels is the observation.
type Case struct {
	Tables   []Table      `json:"tables"`
	Vertices []VMap       `json:"vertices"`
	Edges    []EMap       `json:"edges"`
	Steps    []model.Step `json:"steps,omitempty"`
	Writes   bool         `json:"writes,omitempty"`
	Labels   bool         `json:"labels,omitempty"`
}

func (c Case) table(name string) *Table {
	for i := range c.Tables {
		if c.Tables[i].Name == name {
			return &c.Tables[i]
		}
	}
	return nil
}

func (c Case) config() gripper.GraphConfig {
	conf := gripper.GraphConfig{Vertices: map[string]gripper.VertexConfig{}, Edges: map[string]gripper.EdgeConfig{}}
	for _, v := range c.Vertices {
		conf.Vertices[v.Prefix] = gripper.VertexConfig{Gid: v.Prefix, Label: v.Label,
			Data: gripper.ElementConfig{Source: "src", Collection: v.Table}}
	}
	for _, e := range c.Edges {
		conf.Edges[e.Name] = gripper.EdgeConfig{Gid: e.Name, From: e.From, To: e.To, Label: e.Label,
			Data: gripper.ElementConfig{Source: "src", Collection: e.Table, FromField: e.FromField, ToField: e.ToField}}
	}
	return conf
}

// jsonNorm brings a document into the form it has after a JSON round trip.
func jsonNorm(m map[string]interface{}) map[string]interface{} {
	b, err := json.Marshal(m)
	if err != nil {
		panic(err)
	}
	out := map[string]interface{}{}
	if err := json.Unmarshal(b, &out); err != nil {
		panic(err)
	}
	return out
}

func nonEmptyString(d map[string]interface{}, f string) (string, bool) {
	s, ok := d[f].(string)
	return s, ok && s != ""
}

// abstract computes the graph the mapping describes. wellFormed is "" unless two rows
// are mapped to the same vertex id or the mapping refers to unknown tables/prefixes.
func abstract(c Case) (g *model.Graph, wellFormed string) { return abstractWith(c, false) }

// abstractWith(c, true) additionally turns link rows with an empty-string endpoint into
// edges (the graph a lookup that forgets the "non-empty endpoints" rule sees).
func abstractWith(c Case, phantoms bool) (g *model.Graph, wellFormed string) {
	g = &model.Graph{}
	seen := map[string]bool{}
	prefixes := map[string]bool{}
	for _, v := range c.Vertices {
		if prefixes[v.Prefix] {
			return nil, "prefix mapped twice: " + v.Prefix
		}
		prefixes[v.Prefix] = true
		t := c.table(v.Table)
		if t == nil {
			return nil, "unknown table " + v.Table
		}
		rows := map[string]bool{}
		for _, r := range t.Rows {
			if rows[r.ID] || r.ID == "" {
				return nil, "empty or repeated row id in " + t.Name
			}
			rows[r.ID] = true
			id := v.Prefix + r.ID
			if seen[id] {
				return nil, "two rows mapped to vertex id " + id
			}
			seen[id] = true
			g.V = append(g.V, &model.Element{ID: id, Label: v.Label, Data: jsonNorm(r.Data)})
		}
	}
	names := map[string]bool{}
	for _, e := range c.Edges {
		if names[e.Name] {
			return nil, "edge mapping name used twice: " + e.Name
		}
		names[e.Name] = true
		if !prefixes[e.From] || !prefixes[e.To] {
			return nil, "edge mapping between unmapped prefixes"
		}
		t := c.table(e.Table)
		if t == nil {
			return nil, "unknown table " + e.Table
		}
		for _, r := range t.Rows {
			src, ok1 := nonEmptyString(r.Data, e.FromField)
			dst, ok2 := nonEmptyString(r.Data, e.ToField)
			if phantoms {
				src, ok1 = r.Data[e.FromField].(string)
				dst, ok2 = r.Data[e.ToField].(string)
			}
			if !ok1 || !ok2 {
				continue
			}
			from, to := e.From+src, e.To+dst
			g.E = append(g.E, &model.Element{ID: from + "-" + e.Label + "-" + to, Label: e.Label, From: from, To: to,
				Data: jsonNorm(r.Data), Edge: true})
		}
	}
	return g, ""
}

func dupEdgeIDs(g *model.Graph) map[string]bool {
	n := map[string]int{}
	for _, e := range g.E {
		n[e.ID]++
	}
	out := map[string]bool{}
	for id, k := range n {
		if k > 1 {
			out[id] = true
		}
	}
	return out
}

// ---------------------------------------------------------------------------------
// the system under test: table server over bufconn + TabularGraph

// declDriver is the repository's preloaded table driver, additionally reporting the
// mapped link fields as search fields (see Assumptions).
type declDriver struct {
	*gripper.DriverPreLoad
	fields []string
}

func (d declDriver) GetFields() ([]string, error) { return d.fields, nil }

type fixture struct {
	c    Case
	g    *model.Graph
	dups map[string]bool
	tg   *gripper.TabularGraph
	srv  *grpc.Server
	conn *grpc.ClientConn
	lis  *bufconn.Listener
	kv   gdbi.GraphInterface
}

func open(t pbt.TB, c Case) *fixture {
	g, bad := abstract(c)
	if bad != "" {
		t.Fatalf("INFRA: malformed case: %s", bad)
	}
	fx := &fixture{c: c, g: g, dups: dupEdgeIDs(g)}
	drivers := map[string]gripper.Driver{}
	for _, tb := range c.Tables {
		rows := map[string]*gripper.BaseRow{}
		for _, r := range tb.Rows {
			rows[r.ID] = &gripper.BaseRow{Key: r.ID, Value: jsonNorm(r.Data)}
		}
		pre := gripper.NewDriverPreload(rows, nil)
		fs, _ := pre.GetFields()
		set := map[string]bool{}
		for _, f := range fs {
			set[f] = true
		}
		for _, e := range c.Edges {
			if e.Table == tb.Name {
				set[e.FromField], set[e.ToField] = true, true
			}
		}
		drivers[tb.Name] = declDriver{pre, model.SortedKeys(set)}
	}
	fx.lis = bufconn.Listen(1 << 20)
	fx.srv = grpc.NewServer()
	gripper.RegisterGRIPSourceServer(fx.srv, gripper.NewSimpleTableServer(drivers))
	go fx.srv.Serve(fx.lis)
	lis := fx.lis
	conn, err := grpc.Dial("bufnet",
		grpc.WithContextDialer(func(ctx context.Context, _ string) (net.Conn, error) { return lis.DialContext(ctx) }),
		grpc.WithTransportCredentials(insecure.NewCredentials()))
	if err != nil {
		fx.close()
		t.Fatalf("INFRA: dial: %v", err)
	}
	fx.conn = conn
	tg, err := gripper.NewTabularGraph(c.config(), map[string]gripper.GRIPSourceClient{"src": gripper.NewGRIPSourceClient(conn)})
	if err != nil {
		fx.close()
		pbt.Discrepancy(t, c, "mapping:refused", "NewTabularGraph refused a well-formed mapping: %v", err)
		return nil
	}
	fx.tg = tg
	return fx
}

func (fx *fixture) close() {
	if fx == nil {
		return
	}
	if fx.conn != nil {
		fx.conn.Close()
	}
	if fx.srv != nil {
		fx.srv.Stop()
	}
	if fx.lis != nil {
		fx.lis.Close()
	}
}

func (fx *fixture) kvgraph(t pbt.TB) gdbi.GraphInterface {
	if fx.kv == nil {
		gi, err := gripx.Load(gripx.DB("badger"), gripx.FreshName(), fx.g)
		if err != nil {
			t.Fatalf("INFRA: cannot load the abstract graph into kvgraph: %v", err)
		}
		fx.kv = gi
	}
	return fx.kv
}

var goroutineID = regexp.MustCompile(`\bg\d+\b`)

var hangBudget = func() time.Duration {
	if s := os.Getenv("VERIF_C15_BUDGET_S"); s != "" {
		if d, err := time.ParseDuration(s + "s"); err == nil {
			return d
		}
	}
	return 20 * time.Second
}()

// runTab runs a traversal on the TabularGraph. A stream that does not close within the
// budget is examined by quiesce: out.Hang with rep.Verdict == quiesce.Hang is a
// confirmed hang, anything else is inconclusive.
func runTab(tg *gripper.TabularGraph, steps []model.Step) (gripx.Outcome, quiesce.Report) {
	pipe, err := tg.Compiler().Compile(model.Protos(steps), nil)
	if err != nil {
		return gripx.Outcome{CompileErr: err}, quiesce.Report{}
	}
	ctx, cancel := context.WithCancel(context.Background())
	defer cancel()
	ch := pipeline.Run(ctx, pipe, gripx.WorkDir())
	var mu sync.Mutex
	var raw []*gripql.QueryResult
	var n atomic.Int64
	done := make(chan struct{})
	go func() {
		defer close(done)
		for r := range ch {
			mu.Lock()
			raw = append(raw, r)
			mu.Unlock()
			n.Add(1)
		}
	}()
	// goroutines of interest: the traversal engine, the gripper client and the in-process
	// table server (not the embedded store's background workers of the kvgraph leg)
	rep := quiesce.WaitReport(done, n.Load, hangBudget,
		quiesce.WithFilter("github.com/bmeg/grip/gripper", "github.com/bmeg/grip/engine"))
	mu.Lock()
	defer mu.Unlock()
	out := gripx.Outcome{Raw: append([]*gripql.QueryResult{}, raw...), Hang: rep.Verdict != quiesce.Done}
	for _, r := range out.Raw {
		out.Rows = append(out.Rows, gripx.RowCanon(r))
	}
	sort.Strings(out.Rows)
	return out, rep
}

// ---------------------------------------------------------------------------------
// expectations (the reference side of the comparison)

func opsSig(steps []model.Step) string {
	ops := make([]string, len(steps))
	for i, s := range steps {
		ops[i] = s.Op
		if i == 0 && len(s.Args) > 0 {
			ops[i] += "(ids)"
		}
	}
	return strings.Join(ops, ".")
}

func rowWise(steps []model.Step) bool {
	for _, s := range steps {
		if s.Op == "count" || model.OrderSensitive(s) || s.Op == "aggregate" {
			return false
		}
	}
	return true
}

func oneToOne(steps []model.Step) bool {
	for _, s := range steps {
		switch s.Op {
		case "as", "fields", "render", "path", "select":
		default:
			return false
		}
	}
	return true
}

func clamp(x, lo, hi int) int {
	if x < lo {
		return lo
	}
	if x > hi {
		return hi
	}
	return x
}

func truncated(s model.Step, n int) int {
	switch s.Op {
	case "limit":
		return clamp(int(s.N), 0, n)
	case "skip":
		return clamp(n-int(s.N), 0, n)
	case "range":
		a, b := int(s.N), int(s.M)
		if b == -1 {
			return clamp(n-a, 0, n)
		}
		return clamp(clamp(b, 0, n)-a, 0, n)
	}
	panic("not a truncation step")
}

// expect is what the documentation demands of a traversal's rows.
type expect struct {
	mode  string   // equality | rowcount | countrow | subset | skip
	rows  []string // equality: the rows; subset: the superset; rowcount+sub: superset (optional)
	n     int      // rowcount / countrow
	skip  string
	nref  int // size of the reference result that decides non-triviality
	super bool
}

func firstWords(s string) string {
	f := strings.Fields(s)
	if len(f) > 5 {
		f = f[:5]
	}
	return strings.Join(f, " ")
}

func expectation(g *model.Graph, steps []model.Step) expect {
	ty := model.TypeCheck(steps)
	if ty.Verdict != model.WellTyped {
		return expect{mode: "skip", skip: "typing " + ty.Verdict.String() + ": " + firstWords(ty.Why)}
	}
	j := -1
	for i, s := range steps {
		if model.OrderSensitive(s) {
			j = i
			break
		}
	}
	if j < 0 {
		travs, final, unspec := model.Eval(g, steps)
		if unspec != "" {
			return expect{mode: "skip", skip: firstWords(unspec)}
		}
		rows := gripx.ExpectedRows(travs, final)
		return expect{mode: "equality", rows: rows, nref: len(rows)}
	}
	P, op, R := steps[:j], steps[j], steps[j+1:]
	pt, _, unspec := model.Eval(g, P)
	if unspec != "" {
		return expect{mode: "skip", skip: firstWords(unspec)}
	}
	N := len(pt)
	if op.Op == "distinct" {
		fields := op.Args
		if len(fields) == 0 {
			fields = []string{"_gid"}
		}
		keys := map[string]bool{}
		for _, tr := range pt {
			parts := make([]string, len(fields))
			ok := true
			for i, f := range fields {
				v, present := tr.Lookup(f)
				if !present {
					ok = false
					break
				}
				parts[i] = model.Canon(v)
			}
			if ok {
				keys[strings.Join(parts, "\x00")] = true
			}
		}
		switch {
		case len(R) == 0:
			return expect{mode: "rowcount", n: len(keys), rows: gripx.ExpectedRows(pt, model.TypeCheck(P).Final), super: true, nref: N}
		case len(R) == 1 && R[0].Op == "count":
			return expect{mode: "countrow", n: len(keys), nref: N}
		}
	} else {
		want := truncated(op, N)
		switch {
		case len(R) == 1 && R[0].Op == "count":
			return expect{mode: "countrow", n: want, nref: N}
		case len(R) == 0 || oneToOne(R):
			e := expect{mode: "rowcount", n: want, nref: N}
			full := append(append([]model.Step{}, P...), R...)
			if ft, final, u := model.Eval(g, full); u == "" {
				e.rows, e.super = gripx.ExpectedRows(ft, final), true
			}
			return e
		}
	}
	if rowWise(R) {
		full := append(append([]model.Step{}, P...), R...)
		ft, final, u := model.Eval(g, full)
		if u != "" {
			return expect{mode: "skip", skip: firstWords(u)}
		}
		return expect{mode: "subset", rows: gripx.ExpectedRows(ft, final), nref: N}
	}
	return expect{mode: "skip", skip: "order-sensitive suffix"}
}

// check compares an outcome with the expectation ("" = satisfied).
func (e expect) check(out gripx.Outcome) string {
	for _, r := range out.Raw {
		if r == nil {
			return "nil row"
		}
	}
	switch e.mode {
	case "equality":
		return gripx.DiffMultiset(out.Rows, e.rows)
	case "rowcount":
		if len(out.Rows) != e.n {
			return fmt.Sprintf("%d rows, want %d", len(out.Rows), e.n)
		}
		if e.super && !gripx.SubMultiset(out.Rows, e.rows) {
			return fmt.Sprintf("rows are not a sub-multiset of the untruncated result: %v", clip(out.Rows))
		}
	case "countrow":
		got := -1
		if len(out.Raw) == 1 {
			got = int(out.Raw[0].GetCount())
		}
		if got != e.n {
			return fmt.Sprintf("count=%d (rows %v), want %d", got, clip(out.Rows), e.n)
		}
	case "subset":
		if !gripx.SubMultiset(out.Rows, e.rows) {
			return fmt.Sprintf("rows are not a sub-multiset of the untruncated result: %v", clip(out.Rows))
		}
	}
	return ""
}

func clip(a []string) []string {
	if len(a) > 4 {
		return append(a[:4:4], fmt.Sprintf("… (%d more)", len(a)-4))
	}
	return a
}

// ---------------------------------------------------------------------------------
// judging one traversal

const (
	sigIDsIgnored = "start:ids-ignored-with-hasLabel"
	sigLastLabel  = "start:only-last-hasLabel"
	sigEdgeScan   = "edge-scan:jsonpath-vs-plain-field"
	sigDashID     = "edge-id:dash-in-row-id"
	sigFirstTable = "edge-lookup:first-matching-link-table-only"
	sigPhantom    = "edge-lookup:phantom-edge-empty-endpoint"
)

func leadHasLabels(steps []model.Step) int {
	h := 0
	for _, s := range steps[1:] {
		if s.Op != "hasLabel" {
			break
		}
		h++
	}
	return h
}

func moves(steps []model.Step) int {
	n := 0
	for _, s := range steps {
		switch s.Op {
		case "out", "in", "both", "outE", "inE", "bothE":
			n++
		}
	}
	return n
}

func graphKey(c Case) string {
	k := c
	k.Steps = nil
	b, _ := json.Marshal(k)
	return string(b)
}

func dashes(id string) int { return strings.Count(id, "-") }

// noEdgeID strips edge ids from canonical rows (to tell id-only mismatches apart).
func noEdgeID(rows []string) []string {
	out := make([]string, len(rows))
	for i, r := range rows {
		var v interface{}
		if json.Unmarshal([]byte(r), &v) != nil {
			out[i] = r
			continue
		}
		out[i] = model.Canon(stripEdgeGid(v))
	}
	sort.Strings(out)
	return out
}

func stripEdgeGid(v interface{}) interface{} {
	switch x := v.(type) {
	case map[string]interface{}:
		o := map[string]interface{}{}
		for k, e := range x {
			if k == "edge" {
				if m, ok := e.(map[string]interface{}); ok {
					mm := map[string]interface{}{}
					for kk, ee := range m {
						if kk != "gid" {
							mm[kk] = ee
						}
					}
					o[k] = mm
					continue
				}
				if _, ok := e.(string); ok { // path entry
					o[k] = "*"
					continue
				}
			}
			o[k] = stripEdgeGid(e)
		}
		return o
	case []interface{}:
		o := make([]interface{}, len(x))
		for i, e := range x {
			o[i] = stripEdgeGid(e)
		}
		return o
	}
	return v
}

// explainedBy reports whether the outcome is what the documentation demands of the
// variant traversal (used to attribute a mismatch to a root cause).
func explainedBy(g *model.Graph, variant []model.Step, out gripx.Outcome) bool {
	e := expectation(g, variant)
	return e.mode != "skip" && e.check(out) == ""
}

// signature attributes a mismatch of the TabularGraph to a root cause.
func signature(fx *fixture, steps []model.Step, out gripx.Outcome, e expect) (string, string) {
	g := fx.g
	start := steps[0]
	h := leadHasLabels(steps)
	rest := steps[1+h:]
	mk := func(start model.Step, labels []model.Step) []model.Step {
		v := append([]model.Step{start}, labels...)
		return append(v, rest...)
	}
	if h >= 1 {
		noIDs := model.S(start.Op)
		last := steps[h : h+1]
		all := steps[1 : 1+h]
		if start.Op == "E" && explainedBy(g, mk(model.S("E", "\x00no such edge"), nil), out) && len(g.E) > 0 {
			return sigEdgeScan, "the result is what the traversal yields on a graph without edges"
		}
		if len(start.Args) > 0 && explainedBy(g, mk(noIDs, all), out) {
			return sigIDsIgnored, fmt.Sprintf("the result is that of %s", model.TravString(mk(noIDs, all)))
		}
		if h >= 2 && explainedBy(g, mk(start, last), out) {
			return sigLastLabel, fmt.Sprintf("the result is that of %s", model.TravString(mk(start, last)))
		}
		if len(start.Args) > 0 && h >= 2 && explainedBy(g, mk(noIDs, last), out) {
			// both defects at once: report the ids one, then the chain one
			return sigIDsIgnored + "+" + sigLastLabel, fmt.Sprintf("the result is that of %s", model.TravString(mk(noIDs, last)))
		}
	}
	if start.Op == "E" && len(start.Args) > 0 {
		// GetEdge: (d) ids that do not split into three parts at '-' are not found,
		// (p) link rows with an empty-string endpoint are found, (f) only the first
		// edge mapping that fits the id is consulted. Try the combinations, fewest first.
		var kept []string
		for _, id := range start.Args {
			if dashes(id) == 2 {
				kept = append(kept, id)
			}
		}
		gp, bad := abstractWith(fx.c, true)
		// judged on the start alone: later steps see the real graph again (a phantom
		// edge is found by id but never listed by a move)
		rest := []model.Step{}
		out, _ := runTab(fx.tg, steps[:1])
		deviates := out.CompileErr == nil && !out.Hang && expectation(g, steps[:1]).check(out) != ""
		type combo struct{ d, p, f bool }
		for _, cb := range []combo{{true, false, false}, {false, true, false}, {false, false, true},
			{true, true, false}, {true, false, true}, {false, true, true}, {true, true, true}} {
			if !deviates || (cb.d && len(kept) == len(start.Args)) || (cb.p && (bad != "" || len(gp.E) == len(g.E))) {
				continue
			}
			gg, ids := g, start.Args
			var sigs []string
			if cb.d {
				ids = kept
				sigs = append(sigs, sigDashID)
			}
			if cb.p {
				gg = gp
				sigs = append(sigs, sigPhantom)
			}
			ok := false
			if cb.f {
				sigs = append(sigs, sigFirstTable)
				ok = firstTableExplains(fx.c, gg, ids, rest, out)
			} else {
				ok = explainedBy(gg, append([]model.Step{model.S("E", append([]string{"\x00no such edge"}, ids...)...)}, rest...), out)
			}
			if ok {
				return strings.Join(sigs, "+"), "the result is what GetEdge's known lookup defects yield: " + strings.Join(sigs, ", ")
			}
		}
	}
	if e.mode == "equality" && gripx.DiffMultiset(noEdgeID(out.Rows), noEdgeID(e.rows)) == "" {
		return "edge-id:differs:" + opsSig(steps), "rows agree once edge ids are projected out"
	}
	// localise: the shortest prefix on which the TabularGraph deviates
	for k := 1; k <= len(steps); k++ {
		p := steps[:k]
		if model.OrderSensitive(p[k-1]) {
			break
		}
		pe := expectation(g, p)
		if pe.mode != "equality" {
			break
		}
		po, _ := runTab(fx.tg, p)
		if po.CompileErr != nil || po.Hang {
			break
		}
		if d := pe.check(po); d != "" {
			before := "start"
			if k > 1 {
				before = model.TypeCheck(steps[:k-1]).Final.String()
			}
			op := p[k-1].Op
			if len(p[k-1].Args) > 0 && (op == "V" || op == "E" || strings.HasPrefix(op, "out") || strings.HasPrefix(op, "in") || strings.HasPrefix(op, "both")) {
				op += "(args)"
			}
			return fmt.Sprintf("rows:%s@%s", op, before), fmt.Sprintf("first deviating prefix %s: %s", model.TravString(p), d)
		}
	}
	return "rows:" + opsSig(steps), ""
}

// firstTableExplains: GetEdge stops at the first edge mapping (in an iteration order that
// depends on Go's map order) whose label and prefixes fit the id, even when that
// mapping's table has no such row. The outcome is explained by this when it equals the
// reference result for E(ids) without some of the ids that fit more than one mapping.
func firstTableExplains(c Case, g *model.Graph, ids []string, rest []model.Step, out gripx.Outcome) bool {
	var kept, amb []string
	for _, id := range ids {
		parts := strings.Split(id, "-")
		n := 0
		if len(parts) == 3 {
			for _, em := range c.Edges {
				if em.Label == parts[1] && strings.HasPrefix(parts[0], em.From) && strings.HasPrefix(parts[2], em.To) {
					n++
				}
			}
		}
		if n > 1 {
			amb = append(amb, id)
		} else {
			kept = append(kept, id)
		}
	}
	if len(amb) == 0 || len(amb) > 4 {
		return false
	}
	for mask := 0; mask < 1<<len(amb)-1; mask++ { // every proper subset of the ambiguous ids
		sel := append([]string{"\x00no such edge"}, kept...)
		for i, id := range amb {
			if mask&(1<<i) != 0 {
				sel = append(sel, id)
			}
		}
		if explainedBy(g, append([]model.Step{model.S("E", sel...)}, rest...), out) {
			return true
		}
	}
	return false
}

func report(t pbt.TB, c Case, sig, format string, args ...any) {
	// a combined signature stands for several root causes at work in one traversal:
	// each of them is reported (an unlisted one fails the test)
	for _, s := range strings.Split(sig, "+") {
		pbt.Discrepancy(t, c, s, format, args...)
	}
}

// judge runs one traversal case on an open fixture.
func judge(t pbt.TB, fx *fixture, c Case) {
	pbt.Case(t)
	steps := c.Steps
	e := expectation(fx.g, steps)
	if e.mode == "skip" {
		pbt.Class(t, "skip:"+e.skip)
		return
	}
	if steps[0].Op == "E" {
		for _, id := range steps[0].Args {
			if fx.dups[id] {
				pbt.Class(t, "skip:E(id) of a repeated link")
				return
			}
		}
	}
	h := leadHasLabels(steps)
	if (len(fx.g.E) >= 1 && moves(steps) >= 1) || len(steps[0].Args) > 0 || h >= 1 {
		pbt.Nontrivial(t, graphKey(c)+"|"+model.TravString(steps))
	}
	out, rep := runTab(fx.tg, steps)
	if out.CompileErr != nil {
		pbt.Discrepancy(t, c, "typing:rejected:"+opsSig(steps), "well-typed traversal %s rejected: %v", model.TravString(steps), out.CompileErr)
		return
	}
	if out.Hang {
		if rep.Verdict == quiesce.Hang {
			pbt.Discrepancy(t, c, "hang:"+opsSig(steps), "%s never ends (%d rows so far); %s\n%s", model.TravString(steps), len(out.Rows), rep.Reason, rep.Stacks())
		} else {
			if os.Getenv("VERIF_C15_DEBUG") != "" {
				b, _ := json.Marshal(c)
				fmt.Fprintf(os.Stderr, "C15-DEBUG not closed: %s\n%s\n%s\nCASE %s\n", model.TravString(steps), rep.Reason, rep.Stacks(), b)
			}
			pbt.Inconclusive(t, "stream not closed within budget: "+goroutineID.ReplaceAllString(firstWords(rep.Reason), "g"))
		}
		return
	}
	dt := e.check(out)
	var dk string
	var kv gripx.Outcome
	threeWay := len(fx.dups) == 0
	if threeWay {
		kv = gripx.Run(fx.kvgraph(t), model.Protos(steps))
		switch {
		case kv.CompileErr != nil:
			dk = "rejected: " + kv.CompileErr.Error()
		case kv.Hang:
			pbt.Inconclusive(t, "kvgraph stream not closed within budget")
			threeWay = false
		default:
			dk = e.check(kv)
		}
	}
	if threeWay {
		pbt.Class(t, "judged:three-way:"+e.mode)
	} else {
		pbt.Class(t, "judged:two-way:"+e.mode)
	}
	switch {
	case dt == "" && dk == "":
		return
	case dt == "" && dk != "":
		pbt.Discrepancy(t, c, "kvgraph-deviates:"+opsSig(steps), "%s: TabularGraph and the reference agree, kvgraph deviates: %s", model.TravString(steps), dk)
		return
	case dt != "" && dk != "" && e.mode == "equality" && gripx.DiffMultiset(out.Rows, kv.Rows) == "":
		pbt.Discrepancy(t, c, "reference-deviates:"+opsSig(steps), "%s: TabularGraph and kvgraph agree, the reference interpreter deviates: %s", model.TravString(steps), dt)
		return
	}
	sig, why := signature(fx, steps, out, e)
	report(t, c, sig, "%s on the mapped graph: %s%s", model.TravString(steps), dt, ifs(why != "", " ("+why+")"))
}

func ifs(b bool, s string) string {
	if b {
		return s
	}
	return ""
}

// ---------------------------------------------------------------------------------
// writes are refused and change nothing; label listings

func listing(fx *fixture) (rows []string, ok bool) {
	for _, st := range []string{"V", "E"} {
		o, _ := runTab(fx.tg, []model.Step{model.S(st)})
		if o.CompileErr != nil || o.Hang {
			return nil, false
		}
		rows = append(rows, o.Rows...)
	}
	return rows, true
}

func judgeWrites(t pbt.TB, fx *fixture, c Case) {
	pbt.Case(t)
	before, ok := listing(fx)
	if !ok {
		pbt.Inconclusive(t, "listing did not finish")
		return
	}
	vid, eid, from, to := "P:new", "P:new-x-P:new", "P:new", "P:new"
	if len(fx.g.V) > 0 {
		vid, from, to = fx.g.V[0].ID, fx.g.V[0].ID, fx.g.V[len(fx.g.V)-1].ID
	}
	if len(fx.g.E) > 0 {
		eid = fx.g.E[0].ID
	}
	bulk := func(el *gdbi.GraphElement) error {
		ch := make(chan *gdbi.GraphElement, 1)
		ch <- el
		close(ch)
		return fx.tg.BulkAdd(ch)
	}
	calls := []struct {
		name string
		f    func() error
	}{
		{"AddVertex-new", func() error {
			return fx.tg.AddVertex([]*gdbi.Vertex{{ID: "P:brandnew", Label: "A", Data: map[string]interface{}{"k": 1.0}, Loaded: true}})
		}},
		{"AddVertex-existing", func() error {
			return fx.tg.AddVertex([]*gdbi.Vertex{{ID: vid, Label: "B", Data: map[string]interface{}{"k": "changed"}, Loaded: true}})
		}},
		{"AddEdge", func() error {
			return fx.tg.AddEdge([]*gdbi.Edge{{ID: "newedge", Label: "x", From: from, To: to, Data: map[string]interface{}{}, Loaded: true}})
		}},
		{"BulkAdd-vertex", func() error {
			return bulk(&gdbi.GraphElement{Vertex: &gdbi.Vertex{ID: "P:bulk", Label: "A", Data: map[string]interface{}{}, Loaded: true}, Graph: "g"})
		}},
		{"BulkAdd-edge", func() error {
			return bulk(&gdbi.GraphElement{Edge: &gdbi.Edge{ID: "bulkedge", Label: "x", From: from, To: to, Data: map[string]interface{}{}, Loaded: true}, Graph: "g"})
		}},
		{"DelVertex", func() error { return fx.tg.DelVertex(vid) }},
		{"DelEdge", func() error { return fx.tg.DelEdge(eid) }},
	}
	if len(fx.g.V)+len(fx.g.E) > 0 {
		pbt.Nontrivial(t, "writes|"+graphKey(c))
	}
	for _, call := range calls {
		if err := call.f(); err == nil {
			pbt.Discrepancy(t, c, "write:accepted:"+call.name, "%s on a gripper graph returned no error", call.name)
			return
		}
		after, ok := listing(fx)
		if !ok {
			pbt.Inconclusive(t, "listing did not finish")
			return
		}
		if d := gripx.DiffMultiset(after, before); d != "" {
			pbt.Discrepancy(t, c, "write:changed-graph:"+call.name, "after the refused %s the graph differs: %s", call.name, d)
			return
		}
	}
	pbt.Class(t, "judged:writes")
}

func judgeLabels(t pbt.TB, fx *fixture, c Case) {
	pbt.Case(t)
	check := func(kind string, listed []string, err error, els []*model.Element, mapped map[string]bool) bool {
		if err != nil {
			pbt.Discrepancy(t, c, "label-listing:"+kind+"-error", "listing %s labels failed: %v", kind, err)
			return false
		}
		seen := map[string]bool{}
		for _, l := range listed {
			if seen[l] {
				pbt.Discrepancy(t, c, "label-listing:"+kind+"-repeated", "%s label %q listed twice: %v", kind, l, listed)
				return false
			}
			seen[l] = true
			if !mapped[l] {
				pbt.Discrepancy(t, c, "label-listing:"+kind+"-unmapped", "%s label %q is listed but no mapping has it: %v", kind, l, listed)
				return false
			}
		}
		for _, el := range els {
			if !seen[el.Label] {
				pbt.Discrepancy(t, c, "label-listing:"+kind+"-missing", "%s label %q of %s is not listed: %v", kind, el.Label, el.ID, listed)
				return false
			}
		}
		return true
	}
	vm, em := map[string]bool{}, map[string]bool{}
	for _, v := range c.Vertices {
		vm[v.Label] = true
	}
	for _, e := range c.Edges {
		em[e.Label] = true
	}
	if len(fx.g.V) > 0 {
		pbt.Nontrivial(t, "labels|"+graphKey(c))
	}
	vl, err := fx.tg.ListVertexLabels()
	if !check("vertex", vl, err, fx.g.V, vm) {
		return
	}
	el, err := fx.tg.ListEdgeLabels()
	if !check("edge", el, err, fx.g.E, em) {
		return
	}
	pbt.Class(t, "judged:labels")
}

// runCase is the single entry for generated, fixed and replayed cases.
func runCase(t pbt.TB, c Case) {
	fx := open(t, c)
	if fx == nil {
		return
	}
	defer fx.close()
	runOn(t, fx, c)
}

func runOn(t pbt.TB, fx *fixture, c Case) {
	switch {
	case c.Writes:
		judgeWrites(t, fx, c)
	case c.Labels:
		judgeLabels(t, fx, c)
	default:
		judge(t, fx, c)
	}
}

func TestReplay(t *testing.T) {
	cf, ok := pbt.ReplayFile()
	if !ok {
		t.Skip("no replay file")
	}
	var c Case
	if err := json.Unmarshal(cf.Case, &c); err != nil {
		t.Fatal(err)
	}
	runCase(t, c)
}
