package c15

import (
	"testing"

	"verif/internal/model"
	"verif/internal/pbt"
)

// One small fixed case per known finding (findings/*.md, /verif/known/C15.json). They run
// through the same runCase as the generated cases: while the finding is listed as open
// they print its KNOWN-FINDING line, once it is fixed they must simply hold.

func row(id string, kv ...interface{}) Row {
	d := map[string]interface{}{}
	for i := 0; i+1 < len(kv); i += 2 {
		d[kv[i].(string)] = kv[i+1]
	}
	return Row{ID: id, Data: d}
}

var (
	people = Table{Name: "V0", Rows: []Row{row("1", "k", 1.0), row("2", "k", 2.0)}}
	towns  = Table{Name: "V1", Rows: []Row{row("1", "k", "a")}}

	// V(P:1).hasLabel(A): one vertex; the label scan ignores the ids and returns both
	knownIDsIgnored = Case{Tables: []Table{people}, Vertices: []VMap{{Prefix: "P:", Label: "A", Table: "V0"}},
		Steps: []model.Step{model.S("V", "P:1"), model.S("hasLabel", "A")}}

	// V().hasLabel(A).hasLabel(B): nothing; only hasLabel(B) is applied
	knownLastLabel = Case{Tables: []Table{people, towns},
		Vertices: []VMap{{Prefix: "P:", Label: "A", Table: "V0"}, {Prefix: "T:", Label: "B", Table: "V1"}},
		Steps:    []model.Step{model.S("V"), model.S("hasLabel", "A"), model.S("hasLabel", "B")}}

	linkTable = Table{Name: "L0", Rows: []Row{row("r0", "src", "1", "dst", "2")}}
	linked    = Case{Tables: []Table{people, linkTable}, Vertices: []VMap{{Prefix: "P:", Label: "A", Table: "V0"}},
		Edges: []EMap{{Name: "m0", From: "P:", To: "P:", Label: "x", Table: "L0", FromField: "src", ToField: "dst"}}}

	// E().hasLabel(x): the one edge E() lists; the label scan reads "src" as a JSONPath
	knownEdgeScan = func() Case {
		c := linked
		c.Steps = []model.Step{model.S("E"), model.S("hasLabel", "x")}
		return c
	}()

	// E(P:a-b-x-P:1): the edge E() lists under that id; ParseEdge splits it into 4 parts
	knownDashID = Case{
		Tables:   []Table{{Name: "V0", Rows: []Row{row("a-b"), row("1")}}, {Name: "L0", Rows: []Row{row("r0", "src", "a-b", "dst", "1")}}},
		Vertices: []VMap{{Prefix: "P:", Label: "A", Table: "V0"}},
		Edges:    []EMap{{Name: "m0", From: "P:", To: "P:", Label: "x", Table: "L0", FromField: "src", ToField: "dst"}},
		Steps:    []model.Step{model.S("E", "P:a-b-x-P:1")}}

	// two link tables mapped to the same edge type: E(id1, id2) with one edge from each
	// table finds only the one whose table GetEdge happens to consult first
	knownFirstTable = Case{
		Tables:   []Table{people, linkTable, {Name: "L1", Rows: []Row{row("r0", "src", "1", "dst", "1")}}},
		Vertices: []VMap{{Prefix: "P:", Label: "A", Table: "V0"}},
		Edges: []EMap{{Name: "m0", From: "P:", To: "P:", Label: "x", Table: "L0", FromField: "src", ToField: "dst"},
			{Name: "m1", From: "P:", To: "P:", Label: "x", Table: "L1", FromField: "src", ToField: "dst"}},
		Steps: []model.Step{model.S("E", "P:1-x-P:2", "P:1-x-P:1")}}
)

// a link row with an empty "src" is no edge (E() does not list one), yet E(P:-x-P:2)
// returns an edge from "P:" to P:2
var knownPhantom = Case{
	Tables:   []Table{people, {Name: "L0", Rows: []Row{row("r0", "src", "", "dst", "2"), row("r1", "src", "1", "dst", "2")}}},
	Vertices: []VMap{{Prefix: "P:", Label: "A", Table: "V0"}},
	Edges:    []EMap{{Name: "m0", From: "P:", To: "P:", Label: "x", Table: "L0", FromField: "src", ToField: "dst"}},
	Steps:    []model.Step{model.S("E", "P:-x-P:2")}}

func known(t *testing.T, c Case) {
	if _, ok := pbt.ReplayFile(); ok {
		t.Skip("replay mode")
	}
	if pbt.Shard() != 0 {
		t.Skip("shard 0 only")
	}
	runCase(t, c)
}

func TestKnownIDsIgnoredWithHasLabel(t *testing.T) { known(t, knownIDsIgnored) }
func TestKnownOnlyLastHasLabel(t *testing.T)       { known(t, knownLastLabel) }
func TestKnownEdgeScanJSONPath(t *testing.T)       { known(t, knownEdgeScan) }
func TestKnownEdgeIDWithDash(t *testing.T)         { known(t, knownDashID) }
func TestKnownFirstLinkTableOnly(t *testing.T)     { known(t, knownFirstTable) }
func TestKnownPhantomEdge(t *testing.T)            { known(t, knownPhantom) }

// The same shapes must hold where the defect does not apply (sanity of the oracle).
func TestFixedSane(t *testing.T) {
	if _, ok := pbt.ReplayFile(); ok {
		t.Skip("replay mode")
	}
	if pbt.Shard() != 0 {
		t.Skip("shard 0 only")
	}
	for _, steps := range [][]model.Step{
		{model.S("V")}, {model.S("E")}, {model.S("V"), model.S("hasLabel", "A")}, {model.S("V", "P:1", "P:zz")},
		{model.S("E", "P:1-x-P:2")}, {model.S("V"), model.S("out", "x")}, {model.S("V"), model.S("inE")},
		{model.S("E"), model.S("out")}, {model.S("E"), model.S("in")},
	} {
		c := linked
		c.Steps = steps
		runCase(t, c)
	}
	w := linked
	w.Writes = true
	runCase(t, w)
	l := linked
	l.Labels = true
	runCase(t, l)
}
