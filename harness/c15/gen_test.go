package c15

import (
	"fmt"
	"sort"
	"strings"
	"testing"

	"pgregory.net/rapid"
	"verif/internal/gen"
	"verif/internal/model"
	"verif/internal/pbt"
)

var (
	rowIDPool  = []string{"1", "2", "3", "4", "a-b", "x:1", "2-3"}
	prefixPool = []string{"P:", "T:", "P:x:", "Q"}
	linkRowIDs = []string{"r0", "r1", "r2", "r3", "r4", "r5"}
)

// linkValue draws the value of a link field: mostly the id of an existing row of the
// table it points at, sometimes a missing row, "", a number, null, or no field at all
// (ok=false).
func linkValue(t *rapid.T, label string, targetRows []string) (v interface{}, ok bool) {
	k := rapid.IntRange(0, 19).Draw(t, label+".kind")
	switch {
	case k < 12 && len(targetRows) > 0:
		return rapid.SampledFrom(targetRows).Draw(t, label+".row"), true
	case k < 14:
		return rapid.SampledFrom(append(append([]string{}, rowIDPool...), "zz")).Draw(t, label+".any"), true
	case k < 16:
		return "", true
	case k < 17:
		return float64(rapid.IntRange(1, 3).Draw(t, label+".num")), true
	case k < 18:
		return nil, true
	case k < 19:
		return nil, false
	}
	return "zz", true
}

func rowIDsOf(tb *Table) []string {
	out := make([]string, len(tb.Rows))
	for i, r := range tb.Rows {
		out[i] = r.ID
	}
	return out
}

// genTables draws the table set and its mapping (Steps left empty).
func genTables(t *rapid.T) Case {
	var c Case
	nv := rapid.IntRange(1, 4).Draw(t, "nVertexTables")
	prefixes := rapid.Permutation(prefixPool).Draw(t, "prefixes")[:nv]
	taken := map[string]bool{}
	for i := 0; i < nv; i++ {
		name := fmt.Sprintf("V%d", i)
		// a small label pool makes tables share labels
		vm := VMap{Prefix: prefixes[i], Label: rapid.SampledFrom(gen.VertexLabels[:2+i%2]).Draw(t, name+".label"), Table: name}
		n := rapid.IntRange(0, 6).Draw(t, name+".rows")
		ids := rapid.Permutation(rowIDPool).Draw(t, name+".ids")[:n]
		tb := Table{Name: name, Rows: []Row{}}
		for j, id := range ids {
			if taken[vm.Prefix+id] {
				// "P:"+"x:1" and "P:x:"+"1" are one vertex id: a mapping must not do that
				pbt.Class(t, "gen:colliding-row-dropped")
				continue
			}
			taken[vm.Prefix+id] = true
			tb.Rows = append(tb.Rows, Row{ID: id, Data: gen.Data(t, fmt.Sprintf("%s.r%d", name, j))})
		}
		c.Tables = append(c.Tables, tb)
		c.Vertices = append(c.Vertices, vm)
	}
	vt := func(i int) *Table { return &c.Tables[i] }
	edgeName := func() string { return fmt.Sprintf("m%d", len(c.Edges)) }

	// dedicated link tables
	nl := rapid.IntRange(0, 3).Draw(t, "nLinkTables")
	for i := 0; i < nl; i++ {
		name := fmt.Sprintf("L%d", i)
		a := rapid.IntRange(0, nv-1).Draw(t, name+".a")
		b := rapid.IntRange(0, nv-1).Draw(t, name+".b")
		n := rapid.IntRange(0, 6).Draw(t, name+".rows")
		tb := Table{Name: name, Rows: []Row{}}
		ra, rb := rowIDsOf(vt(a)), rowIDsOf(vt(b))
		for j := 0; j < n; j++ {
			lbl := fmt.Sprintf("%s.r%d", name, j)
			d := map[string]interface{}{}
			if rapid.IntRange(0, 2).Draw(t, lbl+".hasData") == 0 {
				d = gen.Data(t, lbl)
			}
			if j > 0 && rapid.IntRange(0, 5).Draw(t, lbl+".repeat") == 0 {
				// a repeated link
				prev := tb.Rows[rapid.IntRange(0, j-1).Draw(t, lbl+".of")].Data
				for _, f := range []string{"src", "dst"} {
					if v, ok := prev[f]; ok {
						d[f] = v
					}
				}
			} else {
				if v, ok := linkValue(t, lbl+".src", ra); ok {
					d["src"] = v
				}
				if v, ok := linkValue(t, lbl+".dst", rb); ok {
					d["dst"] = v
				}
			}
			tb.Rows = append(tb.Rows, Row{ID: linkRowIDs[j], Data: d})
		}
		c.Tables = append(c.Tables, tb)
		lab := rapid.SampledFrom(gen.EdgeLabels).Draw(t, name+".label")
		switch rapid.IntRange(0, 5).Draw(t, name+".use") {
		case 0, 1: // forward only
			c.Edges = append(c.Edges, EMap{Name: edgeName(), From: prefixes[a], To: prefixes[b], Label: lab, Table: name, FromField: "src", ToField: "dst"})
		case 2: // reverse only
			c.Edges = append(c.Edges, EMap{Name: edgeName(), From: prefixes[b], To: prefixes[a], Label: lab, Table: name, FromField: "dst", ToField: "src"})
		case 3, 4: // both directions, as filmVehicles / vehicleFilms in swapi.yaml
			c.Edges = append(c.Edges, EMap{Name: edgeName(), From: prefixes[a], To: prefixes[b], Label: lab, Table: name, FromField: "src", ToField: "dst"})
			c.Edges = append(c.Edges, EMap{Name: edgeName(), From: prefixes[b], To: prefixes[a], Label: rapid.SampledFrom(gen.EdgeLabels).Draw(t, name+".backLabel"), Table: name, FromField: "dst", ToField: "src"})
		case 5: // the same rows also read as links between two other vertex types
			c.Edges = append(c.Edges, EMap{Name: edgeName(), From: prefixes[a], To: prefixes[b], Label: lab, Table: name, FromField: "src", ToField: "dst"})
			c.Edges = append(c.Edges, EMap{Name: edgeName(), From: rapid.SampledFrom(prefixes).Draw(t, name+".from2"), To: rapid.SampledFrom(prefixes).Draw(t, name+".to2"),
				Label: rapid.SampledFrom(gen.EdgeLabels).Draw(t, name+".label2"), Table: name, FromField: "src", ToField: "dst"})
		}
	}
	// vertex tables that carry a reference to another table (homeworld in swapi.yaml)
	for i := 0; i < nv; i++ {
		name := fmt.Sprintf("V%d", i)
		lim := 3
		if nl == 0 && i == 0 {
			lim = 1
		}
		if rapid.IntRange(0, lim).Draw(t, name+".hasRef") != 0 {
			continue
		}
		j := rapid.IntRange(0, nv-1).Draw(t, name+".refTo")
		target := rowIDsOf(vt(j))
		tb := vt(i)
		for r := range tb.Rows {
			lbl := fmt.Sprintf("%s.r%d", name, r)
			if rapid.IntRange(0, 9).Draw(t, lbl+".idOK") != 0 {
				tb.Rows[r].Data["id"] = tb.Rows[r].ID
			}
			if v, ok := linkValue(t, lbl+".ref", target); ok {
				tb.Rows[r].Data["ref"] = v
			}
		}
		lab := rapid.SampledFrom(gen.EdgeLabels).Draw(t, name+".refLabel")
		c.Edges = append(c.Edges, EMap{Name: edgeName(), From: prefixes[i], To: prefixes[j], Label: lab, Table: name, FromField: "id", ToField: "ref"})
		if rapid.Bool().Draw(t, name+".refBack") {
			c.Edges = append(c.Edges, EMap{Name: edgeName(), From: prefixes[j], To: prefixes[i], Label: rapid.SampledFrom(gen.EdgeLabels).Draw(t, name+".refBackLabel"), Table: name, FromField: "ref", ToField: "id"})
		}
	}
	return c
}

// ---------------------------------------------------------------------------------
// traversals

func mapIDs(steps []model.Step, vmap, emap map[string]string) []model.Step {
	sub := func(s string, ty model.Type) string {
		if ty == model.TVertex {
			if n, ok := vmap[s]; ok {
				return n
			}
		} else if n, ok := emap[s]; ok {
			return n
		}
		if n, ok := vmap[s]; ok {
			return n
		}
		if n, ok := emap[s]; ok {
			return n
		}
		return s
	}
	var walk func(e *model.Expr, ty model.Type) *model.Expr
	walk = func(e *model.Expr, ty model.Type) *model.Expr {
		if e == nil {
			return nil
		}
		o := *e
		if e.IsLeaf() {
			if e.Key == "_gid" || strings.HasSuffix(e.Key, "._gid") {
				switch a := e.Arg.(type) {
				case string:
					o.Arg = sub(a, ty)
				case []interface{}:
					l := make([]interface{}, len(a))
					for i, x := range a {
						if s, ok := x.(string); ok {
							l[i] = sub(s, ty)
						} else {
							l[i] = x
						}
					}
					o.Arg = l
				}
			}
			return &o
		}
		o.Kids = make([]*model.Expr, len(e.Kids))
		for i, k := range e.Kids {
			o.Kids[i] = walk(k, ty)
		}
		return &o
	}
	out := make([]model.Step, len(steps))
	types := model.TypeCheck(steps).Types
	for i, s := range steps {
		ty := model.TVertex
		if i < len(types) {
			ty = types[i]
		}
		o := s
		switch s.Op {
		case "V", "E", "hasId":
			if s.Op == "E" {
				ty = model.TEdge
			}
			o.Args = make([]string, len(s.Args))
			seen := map[string]bool{}
			k := 0
			for _, a := range s.Args {
				n := sub(a, ty)
				if seen[n] {
					continue
				}
				seen[n] = true
				o.Args[k] = n
				k++
			}
			o.Args = o.Args[:k]
			if len(s.Args) == 0 {
				o.Args = nil
			}
		case "has":
			o.Has = walk(s.Has, ty)
		}
		out[i] = o
	}
	return out
}

func labelWithin(s model.Step) model.Step {
	l := make([]interface{}, len(s.Args))
	for i, a := range s.Args {
		l[i] = a
	}
	return model.Step{Op: "has", Has: model.Leaf("within", "_label", l)}
}

// genSteps draws a traversal over the ids and labels of the mapped graph.
func genSteps(t *rapid.T, c Case, g *model.Graph) []model.Step {
	steps := gen.Traversal(t, gen.TravOpts{MaxLen: 6, FilterBias: true, RowCountHint: 5})
	isV := steps[0].Op == "V"
	// the starts this driver plans itself
	switch rapid.IntRange(0, 9).Draw(t, "startKind") {
	case 0, 1, 2: // keep what the C01 grammar drew
	case 3, 4:
		steps[0].Args = nil
	default:
		pool := gen.VertexIDs
		if !isV {
			pool = gen.EdgeIDs[:6]
		}
		steps[0].Args = rapid.SliceOfNDistinct(rapid.SampledFrom(append(append([]string{}, pool...), "nope")), 1, 4, rapid.ID[string]).Draw(t, "startIDs")
	}
	if rapid.IntRange(0, 9).Draw(t, "leadLabels") < 5 {
		pool := gen.VertexLabels
		if !isV {
			pool = gen.EdgeLabels
		}
		h := rapid.IntRange(1, 3).Draw(t, "nLeadLabels")
		lead := make([]model.Step, h)
		for i := range lead {
			lead[i] = model.S("hasLabel", gen.WithRepeat(t, rapid.SliceOfNDistinct(rapid.SampledFrom(append(append([]string{}, pool...), "nolabel")), 1, 2, rapid.ID[string]).Draw(t, "leadLabel"))...)
		}
		steps = append(append([]model.Step{steps[0]}, lead...), steps[1:]...)
	}
	// ids of the mapped graph for the id universe of the grammar
	vids := make([]string, 0, len(g.V)+2)
	for _, v := range g.V {
		vids = append(vids, v.ID)
	}
	sort.Strings(vids)
	vids = append(vids, "P:zz", "nope") // a mapped prefix with a missing row, an unmapped id
	eids := []string{}
	seen := map[string]bool{}
	for _, e := range g.E {
		if !seen[e.ID] {
			seen[e.ID] = true
			eids = append(eids, e.ID)
		}
	}
	sort.Strings(eids)
	eids = append(eids, phantomIDs(c, g)...) // ids shaped like an edge of a link row with an empty endpoint
	eids = append(eids, "P:1-x-P:zz", "nope")
	vp := rapid.Permutation(vids).Draw(t, "vidOrder")
	ep := rapid.Permutation(eids).Draw(t, "eidOrder")
	vmap, emap := map[string]string{}, map[string]string{}
	for i, id := range gen.VertexIDs {
		vmap[id] = vp[i%len(vp)]
	}
	for i, id := range gen.EdgeIDs {
		emap[id] = ep[i%len(ep)]
	}
	// distinct opens a temporary Badger store per run (twice per case here; seconds on a
	// busy machine): the step belongs to C01, keep it in one case out of ten
	if rapid.IntRange(0, 9).Draw(t, "keepDistinct") != 0 {
		kept := steps[:0:0]
		for _, s := range steps {
			if s.Op != "distinct" {
				kept = append(kept, s)
			}
		}
		steps = kept
	}
	return mapIDs(steps, vmap, emap)
}

// phantomIDs: ids shaped like the edge of a link row with an empty-string endpoint (no
// such edge exists). Ids that several such rows share are left out: which row a lookup
// would answer with is not defined.
func phantomIDs(c Case, g *model.Graph) []string {
	gp, bad := abstractWith(c, true)
	if bad != "" {
		return nil
	}
	n := map[string]int{}
	for _, e := range gp.E {
		n[e.ID]++
	}
	var out []string
	for id, k := range n {
		if k == 1 && g.EdgeByID(id) == nil {
			out = append(out, id)
		}
	}
	sort.Strings(out)
	return out
}

// steer rewrites traversal shapes that trigger a listed open finding into an
// equivalent shape that does not (most of the time), so that the finding does not mask
// everything behind the start.
func steer(t *rapid.T, steps []model.Step, phantom []string) []model.Step {
	h := leadHasLabels(steps)
	keep := func(lbl string) bool { return rapid.IntRange(0, 9).Draw(t, lbl) < 2 }
	out := append([]model.Step{}, steps...)
	if h >= 1 {
		switch {
		case steps[0].Op == "E" && pbt.IsOpen(sigEdgeScan):
			if !keep("keepEdgeScan") {
				for i := 1; i <= h; i++ {
					out[i] = labelWithin(steps[i])
				}
				pbt.Avoided("C15-edge-scan-jsonpath")
				h = 0
			}
		case len(steps[0].Args) > 0 && pbt.IsOpen(sigIDsIgnored):
			if !keep("keepIDsIgnored") {
				for i := 1; i <= h; i++ {
					out[i] = labelWithin(steps[i])
				}
				pbt.Avoided("C15-start-ids-ignored")
				h = 0
			}
		}
		if h >= 2 && pbt.IsOpen(sigLastLabel) && !keep("keepLastLabel") {
			for i := 2; i <= h; i++ {
				out[i] = labelWithin(steps[i])
			}
			pbt.Avoided("C15-start-only-last-hasLabel")
		}
	}
	if out[0].Op == "E" && len(out[0].Args) > 0 && len(phantom) > 0 && pbt.IsOpen(sigPhantom) {
		ph := map[string]bool{}
		for _, id := range phantom {
			ph[id] = true
		}
		var kept []string
		for _, id := range out[0].Args {
			if !ph[id] {
				kept = append(kept, id)
			}
		}
		if len(kept) < len(out[0].Args) && !keep("keepPhantom") {
			if len(kept) == 0 {
				kept = []string{"nope"}
			}
			s := out[0]
			s.Args = kept
			out[0] = s
			pbt.Avoided("C15-edge-lookup-phantom")
		}
	}
	if out[0].Op == "E" && len(out[0].Args) > 0 && pbt.IsOpen(sigDashID) {
		var kept []string
		for _, id := range out[0].Args {
			if dashes(id) == 2 {
				kept = append(kept, id)
			}
		}
		if len(kept) < len(out[0].Args) && !keep("keepDashID") {
			if len(kept) == 0 {
				kept = []string{"nope"}
			}
			s := out[0]
			s.Args = kept
			out[0] = s
			pbt.Avoided("C15-edge-id-dash")
		}
	}
	return out
}

// ---------------------------------------------------------------------------------
// classification

func classifyTables(t pbt.Named, c Case, g *model.Graph) {
	cl := func(b bool, l string) {
		if b {
			pbt.Class(t, l)
		}
	}
	labels := map[string]int{}
	nested := false
	for i, v := range c.Vertices {
		labels[v.Label]++
		for j, w := range c.Vertices {
			if i != j && strings.HasPrefix(w.Prefix, v.Prefix) {
				nested = true
			}
		}
	}
	shared := false
	for _, n := range labels {
		if n > 1 {
			shared = true
		}
	}
	cl(shared, "tables:shared-label")
	cl(nested, "tables:nested-prefixes")
	dash, colon := false, false
	for _, v := range g.V {
		id := v.ID
		for _, vm := range c.Vertices {
			if strings.HasPrefix(id, vm.Prefix) {
				r := id[len(vm.Prefix):]
				dash = dash || strings.Contains(r, "-")
				colon = colon || strings.Contains(r, ":")
			}
		}
	}
	cl(dash, "tables:row-id-with-dash")
	cl(colon, "tables:row-id-with-colon")
	var empty, number, missing, null, ghost, vertexAsLink, emptyLink bool
	byTable := map[string][]EMap{}
	for _, e := range c.Edges {
		byTable[e.Table] = append(byTable[e.Table], e)
		tb := c.table(e.Table)
		vertexAsLink = vertexAsLink || strings.HasPrefix(e.Table, "V")
		emptyLink = emptyLink || len(tb.Rows) == 0
		for _, r := range tb.Rows {
			for _, f := range []string{e.FromField, e.ToField} {
				v, ok := r.Data[f]
				switch x := v.(type) {
				case string:
					empty = empty || x == ""
				case float64:
					number = true
				case nil:
					if ok {
						null = true
					} else {
						missing = true
					}
				}
			}
		}
	}
	both := false
	for _, l := range byTable {
		for _, a := range l {
			for _, b := range l {
				if a.FromField == b.ToField && a.ToField == b.FromField {
					both = true
				}
			}
		}
	}
	for _, e := range g.E {
		if g.Vertex(e.From) == nil || g.Vertex(e.To) == nil {
			ghost = true
		}
	}
	cl(empty, "links:empty-endpoint")
	cl(number, "links:number-endpoint")
	cl(missing, "links:field-missing")
	cl(null, "links:null-endpoint")
	cl(ghost, "links:to-missing-row")
	cl(vertexAsLink, "links:vertex-table-as-link-table")
	cl(emptyLink, "links:empty-link-table")
	cl(both, "links:table-mapped-in-both-directions")
	cl(len(dupEdgeIDs(g)) > 0, "links:repeated")
	cl(len(c.Edges) == 0, "mapping:no-edge-types")
	cl(len(g.E) == 0, "graph:no-edges")
	cl(len(g.V) == 0, "graph:no-vertices")
	cl(len(g.E) >= 1 && len(g.V) >= 2, "graph:has-edges")
}

func classifySteps(t pbt.Named, steps []model.Step) {
	h := leadHasLabels(steps)
	s0 := steps[0].Op + "()"
	if len(steps[0].Args) > 0 {
		s0 = steps[0].Op + "(ids)"
	}
	switch {
	case h >= 2:
		pbt.Class(t, "start:"+s0+".hasLabel-chain")
	case h == 1:
		pbt.Class(t, "start:"+s0+".hasLabel")
	default:
		pbt.Class(t, "start:"+s0)
	}
	if moves(steps) > 0 {
		pbt.Class(t, "trav:crosses-link-table")
	}
	for _, s := range steps {
		switch s.Op {
		case "out", "in", "both", "outE", "inE", "bothE":
			if len(s.Args) > 0 {
				pbt.Class(t, "trav:labelled-move")
				return
			}
		}
	}
}

// ---------------------------------------------------------------------------------
// tests

func TestRandom(t *testing.T) {
	pbt.Check(t, 900, 20000, func(rt *rapid.T) {
		c := genTables(rt)
		g, bad := abstract(c)
		if bad != "" {
			rt.Fatalf("generator produced a malformed case: %s", bad)
		}
		classifyTables(rt, c, g)
		fx := open(rt, c)
		if fx == nil {
			return
		}
		defer fx.close()
		for i := 0; i < 2; i++ {
			tc := c
			tc.Steps = steer(rt, genSteps(rt, c, g), phantomIDs(c, g))
			pbt.Current(rt, tc)
			classifySteps(rt, tc.Steps)
			if pbt.WantSample(rt) {
				pbt.Sample(rt, map[string]interface{}{"vertices": c.Vertices, "edges": c.Edges, "nV": len(g.V), "nE": len(g.E), "traversal": model.TravString(tc.Steps)})
			}
			runOn(rt, fx, tc)
		}
	})
}

// probes: the graph itself (listings, every element by id, every adjacency).
func probes(g *model.Graph) [][]model.Step {
	var vids, eids []string
	for _, v := range g.V {
		vids = append(vids, v.ID)
	}
	seen := map[string]bool{}
	for _, e := range g.E {
		if !seen[e.ID] {
			seen[e.ID] = true
			eids = append(eids, e.ID)
		}
	}
	out := [][]model.Step{
		{model.S("V")}, {model.S("E")},
		{model.S("V"), model.S("as", "a"), model.S("outE"), model.S("as", "b"), model.S("out"), model.S("as", "c"), model.S("select", "a", "b", "c")},
		{model.S("V"), model.S("as", "a"), model.S("inE"), model.S("as", "b"), model.S("in"), model.S("as", "c"), model.S("select", "a", "b", "c")},
		{model.S("V"), model.S("as", "a"), model.S("out"), model.S("as", "c"), model.S("select", "a", "c")},
		{model.S("V"), model.S("as", "a"), model.S("in"), model.S("as", "c"), model.S("select", "a", "c")},
		{model.S("V"), model.S("bothE"), model.S("count")},
		{model.S("V"), model.S("both"), model.S("count")},
	}
	if len(vids) > 0 {
		out = append(out, []model.Step{model.S("V", vids...)})
	}
	if len(eids) > 0 {
		out = append(out, []model.Step{model.S("E", eids...)})
	}
	for _, l := range gen.VertexLabels {
		out = append(out, []model.Step{model.S("V"), model.S("hasLabel", l)})
	}
	for _, l := range gen.EdgeLabels {
		out = append(out, []model.Step{model.S("V"), model.S("as", "a"), model.S("outE", l), model.S("as", "b"), model.S("select", "a", "b")})
		out = append(out, []model.Step{model.S("V"), model.S("as", "a"), model.S("in", l), model.S("as", "b"), model.S("select", "a", "b")})
	}
	return out
}

func TestMapping(t *testing.T) {
	pbt.Check(t, 160, 4000, func(rt *rapid.T) {
		c := genTables(rt)
		g, bad := abstract(c)
		if bad != "" {
			rt.Fatalf("generator produced a malformed case: %s", bad)
		}
		classifyTables(rt, c, g)
		fx := open(rt, c)
		if fx == nil {
			return
		}
		defer fx.close()
		if pbt.WantSample(rt) {
			pbt.Sample(rt, map[string]interface{}{"tables": c.Tables, "vertices": c.Vertices, "edges": c.Edges})
		}
		for _, p := range probes(g) {
			tc := c
			tc.Steps = p
			if p[0].Op == "E" && len(p[0].Args) > 0 && pbt.IsOpen(sigDashID) {
				// judged one id at a time below
				continue
			}
			pbt.Current(rt, tc)
			runOn(rt, fx, tc)
		}
		// every edge by its own id
		seen := map[string]bool{}
		for _, e := range g.E {
			if seen[e.ID] {
				continue
			}
			seen[e.ID] = true
			tc := c
			tc.Steps = []model.Step{model.S("E", e.ID)}
			pbt.Current(rt, tc)
			runOn(rt, fx, tc)
		}
		// ids shaped like the edge of a link row with an empty endpoint name no edge
		for _, id := range phantomIDs(c, g) {
			tc := c
			tc.Steps = []model.Step{model.S("E", id)}
			pbt.Current(rt, tc)
			runOn(rt, fx, tc)
		}
		lc := c
		lc.Labels = true
		runOn(rt, fx, lc)
		wc := c
		wc.Writes = true
		pbt.Current(rt, wc)
		runOn(rt, fx, wc)
	})
}
