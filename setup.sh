#!/bin/sh
# MANIFEST.setup_cmd: offline; regenerates the harness go.mod/go.sum from /repo and warms
# the Go build cache by compiling every property package once.
set -u
cd "$(dirname "$0")"
export GOFLAGS=-mod=mod GOPROXY=off GOSUMDB=off GOTOOLCHAIN=local
python3 - <<'PY'
import importlib.machinery, importlib.util, os
l = importlib.machinery.SourceFileLoader("check", os.path.join(os.getcwd(), "check"))
spec = importlib.util.spec_from_loader("check", l); m = importlib.util.module_from_spec(spec); l.exec_module(m)
m.gen_gomod()
PY
mkdir -p .work evidence
cd harness || exit 1
rc=0
for d in c[0-9][0-9]; do
  [ -d "$d" ] || continue
  go test -c -tags verif -o /dev/null "./$d" || rc=1
done
git -C "${VERIF_REPO:-/repo}" checkout -- go.sum go.mod 2>/dev/null
exit $rc
