#!/bin/sh
# Runs bmeg/grip's own test suite with the verif guard OFF (no -tags verif) and checks
# that every test in BASELINE.json's stable_pass list passes. Exit 0 iff they all pass.
set -u
REPO=${VERIF_REPO:-/repo}
export GOFLAGS=-mod=mod GOPROXY=off GOSUMDB=off GOTOOLCHAIN=local
OUT=$(mktemp)
trap 'rm -f "$OUT"' EXIT
before=$(git -C "$REPO" status --porcelain)
(cd "$REPO" && go test -json -vet=off -count=1 -timeout 25m ./... > "$OUT" 2>/dev/null)
after=$(git -C "$REPO" status --porcelain)
if [ "$before" != "$after" ]; then
  # -mod=mod may touch go.sum; restore it so the tree is left as found
  git -C "$REPO" checkout -- go.sum go.mod 2>/dev/null
fi
python3 - "$OUT" <<'PY'
import json,sys
base=json.load(open('/root/.vp/BASELINE.json'))
want=set(base['stable_pass'])
res={}
for ln in open(sys.argv[1],errors='replace'):
    try: e=json.loads(ln)
    except Exception: continue
    if e.get('Test') and e.get('Action') in('pass','fail','skip'):
        res[e['Package']+'::'+e['Test']]=e['Action']
missing=[t for t in sorted(want) if res.get(t)!='pass']
# tests that bind fixed ports (test/server) can collide with other processes on a busy
# machine: re-run the packages of non-passing tests alone, up to twice
import subprocess,os
for attempt in range(2):
    if not missing: break
    pkgs=sorted({t.split('::')[0] for t in missing})
    for pkg in pkgs:
        rel='./'+pkg[len('github.com/bmeg/grip/'):] if pkg!='github.com/bmeg/grip' else '.'
        out=subprocess.run(['go','test','-json','-vet=off','-count=1','-timeout','25m',rel],cwd=os.environ.get('VERIF_REPO','/repo'),capture_output=True,text=True).stdout
        for ln in out.splitlines():
            try: e=json.loads(ln)
            except Exception: continue
            if e.get('Test') and e.get('Action') in('pass','fail','skip'):
                k=e['Package']+'::'+e['Test']
                if e['Action']=='pass' or res.get(k)!='pass': res[k]=e['Action']
    missing=[t for t in sorted(want) if res.get(t)!='pass']
print("baseline: %d/%d stable tests pass" % (len(want)-len(missing), len(want)))
for t in missing: print("  NOT PASSING:", t, res.get(t))
sys.exit(1 if missing else 0)
PY
